#![no_main]
use libfuzzer_sys::fuzz_target;
use vharness::bytes::FuzzProfile;

// bytes -> Case (every byte string is a valid case) -> the C13 oracle; a violation writes a replay file and aborts
fuzz_target!(|data: &[u8]| {
    vharness::fuzz::one(data, FuzzProfile::Drops, "C13");
});
