use vharness::case::*;
fn main() {
    let path = std::env::args().nth(1).unwrap();
    let v: serde_json::Value = serde_json::from_str(&std::fs::read_to_string(path).unwrap()).unwrap();
    let case: Case = serde_json::from_value(v["case"].clone()).unwrap();
    let r = vharness::run::run_case(&case);
    println!("out={:?} term_start={} revoked={}", r.out, r.term_start, r.sched.revoked);
    for (i, e) in r.log.iter().enumerate() {
        println!("{i:4} tid={} {:?} stage={} extra={} uid={:x}", e.tid, e.kind, e.stage, e.extra, e.uid & 0xffff);
    }
}
