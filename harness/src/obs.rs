//! Observation layer: wait-free event log, logical thread ids, fault injection, spin perturbation.
//! All instrumented closures and the instrumented source iterator funnel through `enter`.

use crate::elem::mix;
use std::cell::Cell;
use std::sync::atomic::{AtomicBool, AtomicU32, AtomicU64, AtomicUsize, Ordering};
use std::sync::{OnceLock, RwLock};

pub const LOG_CAP: usize = 1 << 22; // events

#[repr(u8)]
#[derive(Clone, Copy, PartialEq, Eq, Debug)]
pub enum Kind {
    Stage = 1,
    Pred = 2,
    Red = 3,
    Key = 4,
    ForEach = 5,
    SrcEnter = 6,
    SrcSome = 7,
    SrcNone = 8,
    RunBegin = 9,
    WorkerBegin = 10,
    WorkerEnd = 11,
    SpawnCheck = 12,
    ChunkCheck = 13,
    SpawnerDone = 14,
    RunEnd = 15,
    Cmp = 16,
    Identity = 17,
    RunLen = 18,
    /// the (uninstrumented-by-stage) flat_map closure of the nested sources
    SrcFlat = 19,
}
impl Kind {
    fn from(x: u8) -> Kind {
        match x {
            1 => Kind::Stage,
            2 => Kind::Pred,
            3 => Kind::Red,
            4 => Kind::Key,
            5 => Kind::ForEach,
            6 => Kind::SrcEnter,
            7 => Kind::SrcSome,
            8 => Kind::SrcNone,
            9 => Kind::RunBegin,
            10 => Kind::WorkerBegin,
            11 => Kind::WorkerEnd,
            12 => Kind::SpawnCheck,
            13 => Kind::ChunkCheck,
            14 => Kind::SpawnerDone,
            15 => Kind::RunEnd,
            16 => Kind::Cmp,
            17 => Kind::Identity,
            18 => Kind::RunLen,
            19 => Kind::SrcFlat,
            _ => panic!("bad kind"),
        }
    }
    /// user closure call?
    pub fn is_closure(self) -> bool {
        matches!(
            self,
            Kind::Stage | Kind::Pred | Kind::Red | Kind::Key | Kind::ForEach | Kind::Cmp | Kind::Identity | Kind::SrcFlat
        )
    }
}

/// One decoded log record.
#[derive(Clone, Copy, Debug, PartialEq, Eq)]
pub struct Ev {
    pub kind: Kind,
    /// stage index for `Stage`; 0 otherwise
    pub stage: u8,
    /// logical thread: 0 = the calling thread, 1+k = k-th worker started in this case
    pub tid: u16,
    /// Stage: number of outputs produced; Pred: result; hook events: num_spawned / chunk / max threads
    pub extra: u32,
    /// uid of the argument (closures, SrcSome); hook events: auxiliary word
    pub uid: u64,
}

static LOG: OnceLock<Box<[AtomicU64]>> = OnceLock::new();
static LOG_NEXT: AtomicUsize = AtomicUsize::new(0);
static LOG_OVERFLOW: AtomicBool = AtomicBool::new(false);

fn log() -> &'static [AtomicU64] {
    LOG.get_or_init(|| {
        let mut v = Vec::with_capacity(2 * LOG_CAP);
        v.resize_with(2 * LOG_CAP, || AtomicU64::new(0));
        v.into_boxed_slice()
    })
}

thread_local! {
    static TID: Cell<u16> = const { Cell::new(u16::MAX) };
}
static NEXT_TID: AtomicU32 = AtomicU32::new(1);

/// logical id of the current thread (unknown threads get fresh ids above the workers)
#[inline]
pub fn tid() -> u16 {
    TID.with(|t| {
        let x = t.get();
        if x != u16::MAX {
            x
        } else {
            let n = 1000 + NEXT_TID.fetch_add(1, Ordering::SeqCst) as u16;
            t.set(n);
            n
        }
    })
}
pub fn set_tid(x: u16) {
    TID.with(|t| t.set(x));
}

#[inline]
pub fn record(kind: Kind, stage: u8, extra: u32, uid: u64) {
    let i = LOG_NEXT.fetch_add(1, Ordering::SeqCst);
    if i >= LOG_CAP {
        LOG_OVERFLOW.store(true, Ordering::SeqCst);
        return;
    }
    let l = log();
    let w1 = (kind as u64) | ((stage as u64) << 8) | ((tid() as u64) << 16) | ((extra as u64) << 32);
    l[2 * i].store(uid, Ordering::Relaxed);
    l[2 * i + 1].store(w1, Ordering::Release);
}

pub fn log_len() -> usize {
    LOG_NEXT.load(Ordering::SeqCst).min(LOG_CAP)
}
pub fn log_overflowed() -> bool {
    LOG_OVERFLOW.load(Ordering::SeqCst)
}

/// Decoded copy of the log (call when no worker is running).
pub fn snapshot() -> Vec<Ev> {
    let n = log_len();
    let l = log();
    (0..n)
        .map(|i| {
            let uid = l[2 * i].load(Ordering::Relaxed);
            let w1 = l[2 * i + 1].load(Ordering::Acquire);
            Ev {
                kind: Kind::from((w1 & 0xff) as u8),
                stage: ((w1 >> 8) & 0xff) as u8,
                tid: ((w1 >> 16) & 0xffff) as u16,
                extra: (w1 >> 32) as u32,
                uid,
            }
        })
        .collect()
}

// ------------------------------------------------------------------------------------------------
// per-case switches

/// free-mode perturbation seed (0 = no spinning)
static SPIN: AtomicU32 = AtomicU32::new(0);
/// upper bound of spin iterations per closure call
static SPIN_MAX: AtomicU32 = AtomicU32::new(0);
/// extra spin inside the source iterator's next()
static SRC_SPIN: AtomicU32 = AtomicU32::new(0);
/// closure-level concurrency gauge
static IN_CLOSURE: AtomicU32 = AtomicU32::new(0);
static MAX_IN_CLOSURE: AtomicU32 = AtomicU32::new(0);
/// number of closure calls so far (all kinds)
static CLOSURE_CALLS: AtomicU64 = AtomicU64::new(0);
/// source iterator: next() calls so far, re-entrancy flag and counter
static SRC_NEXTS: AtomicU64 = AtomicU64::new(0);
static SRC_BUSY: AtomicBool = AtomicBool::new(false);
static SRC_REENTRY: AtomicU64 = AtomicU64::new(0);

#[derive(Clone, Copy, Debug, PartialEq, Eq, serde::Serialize, serde::Deserialize)]
pub enum Site {
    Stage(u8),
    Pred,
    Red,
    Key,
    Cmp,
    ForEach,
}
#[derive(Clone, Copy, Debug, PartialEq, Eq)]
pub struct ArmedFault {
    pub site: Site,
    /// panic at the n-th call of the site (0-based, counted over all threads) ...
    pub nth: Option<u32>,
    /// ... or when called with this argument uid
    pub uid: Option<u64>,
}
static FAULTS_ON: AtomicBool = AtomicBool::new(false);
static FAULTS: RwLock<Vec<ArmedFault>> = RwLock::new(Vec::new());
static SITE_CALLS: [AtomicU32; 16] = [const { AtomicU32::new(0) }; 16];
static PANICS_RAISED: AtomicU32 = AtomicU32::new(0);
/// events in the log at the moment the first injected panic was raised
static FIRST_PANIC_AT: AtomicUsize = AtomicUsize::new(usize::MAX);

fn site_slot(site: Site) -> usize {
    match site {
        Site::Stage(s) => (s as usize).min(7),
        Site::Pred => 8,
        Site::Red => 9,
        Site::Key => 10,
        Site::Cmp => 11,
        Site::ForEach => 12,
    }
}

pub struct CaseSwitches {
    pub spin_seed: u32,
    pub spin_max: u32,
    pub src_spin: u32,
    pub faults: Vec<ArmedFault>,
}

/// Resets the log and all per-case switches. The calling thread becomes logical thread 0.
pub fn reset(sw: CaseSwitches) {
    LOG_NEXT.store(0, Ordering::SeqCst);
    LOG_OVERFLOW.store(false, Ordering::SeqCst);
    NEXT_TID.store(1, Ordering::SeqCst);
    set_tid(0);
    SPIN.store(sw.spin_seed, Ordering::SeqCst);
    SPIN_MAX.store(sw.spin_max, Ordering::SeqCst);
    SRC_SPIN.store(sw.src_spin, Ordering::SeqCst);
    IN_CLOSURE.store(0, Ordering::SeqCst);
    MAX_IN_CLOSURE.store(0, Ordering::SeqCst);
    CLOSURE_CALLS.store(0, Ordering::SeqCst);
    SRC_NEXTS.store(0, Ordering::SeqCst);
    SRC_BUSY.store(false, Ordering::SeqCst);
    SRC_REENTRY.store(0, Ordering::SeqCst);
    for c in &SITE_CALLS {
        c.store(0, Ordering::SeqCst);
    }
    PANICS_RAISED.store(0, Ordering::SeqCst);
    FIRST_PANIC_AT.store(usize::MAX, Ordering::SeqCst);
    FAULTS_ON.store(!sw.faults.is_empty(), Ordering::SeqCst);
    *FAULTS.write().unwrap_or_else(|e| e.into_inner()) = sw.faults;
}

pub fn closure_calls() -> u64 {
    CLOSURE_CALLS.load(Ordering::SeqCst)
}
pub fn src_nexts() -> u64 {
    SRC_NEXTS.load(Ordering::SeqCst)
}
pub fn src_reentries() -> u64 {
    SRC_REENTRY.load(Ordering::SeqCst)
}
pub fn max_in_closure() -> u32 {
    MAX_IN_CLOSURE.load(Ordering::SeqCst)
}
pub fn panics_raised() -> u32 {
    PANICS_RAISED.load(Ordering::SeqCst)
}
pub fn first_panic_at() -> Option<usize> {
    let x = FIRST_PANIC_AT.load(Ordering::SeqCst);
    (x != usize::MAX).then_some(x)
}

#[inline]
fn spin(work: u32) {
    let mut x = work as u64 | 1;
    for _ in 0..work {
        x = std::hint::black_box(x.wrapping_mul(6364136223846793005).wrapping_add(1442695040888963407));
    }
    std::hint::black_box(x);
}

/// Payload of injected panics (so that the checker can tell them from library panics).
#[derive(Debug)]
pub struct Injected(pub Site);

/// RAII gauge for "threads concurrently inside user closures".
pub struct InClosure;
impl Drop for InClosure {
    fn drop(&mut self) {
        IN_CLOSURE.fetch_sub(1, Ordering::SeqCst);
    }
}

/// Entry of every instrumented closure: yield point (scheduled mode), gauge, log record, perturbation, fault.
/// `extra`/`uid` as documented at `Ev`.
#[inline]
pub fn enter(kind: Kind, site: Site, stage: u8, extra: u32, uid: u64) -> InClosure {
    crate::sched::yield_point();
    let now = IN_CLOSURE.fetch_add(1, Ordering::SeqCst) + 1;
    MAX_IN_CLOSURE.fetch_max(now, Ordering::SeqCst);
    let guard = InClosure;
    CLOSURE_CALLS.fetch_add(1, Ordering::SeqCst);
    record(kind, stage, extra, uid);
    let smax = SPIN_MAX.load(Ordering::Relaxed);
    if smax > 0 {
        let seed = SPIN.load(Ordering::Relaxed);
        let w = (mix(seed as u64 ^ ((stage as u64) << 40) ^ ((kind as u64) << 48), uid) % (smax as u64 + 1)) as u32;
        // only a fraction of the calls spin at all, so that threads drift apart
        if w & 3 == 0 {
            spin(w);
        }
        // in half of the perturbed cases a few calls give up the CPU or sleep for a fraction of a millisecond: a thread
        // that pauses *inside* a closure while the others go on is what most interleaving bugs need
        if seed & 1 == 1 {
            let r = mix(seed as u64 ^ 0x51EE9, uid ^ ((stage as u64) << 8) ^ ((kind as u64) << 16));
            match r % 211 {
                0 => std::thread::sleep(std::time::Duration::from_micros(40 + (r >> 20) % 300)),
                1..=4 => std::thread::yield_now(),
                _ => {}
            }
        }
    }
    if FAULTS_ON.load(Ordering::Relaxed) {
        let slot = site_slot(site);
        let n = SITE_CALLS[slot].fetch_add(1, Ordering::SeqCst);
        let hit = {
            let faults = FAULTS.read().unwrap_or_else(|e| e.into_inner());
            faults
                .iter()
                .any(|f| f.site == site && (f.nth == Some(n) || (f.uid.is_some() && f.uid == Some(uid))))
        };
        if hit {
            PANICS_RAISED.fetch_add(1, Ordering::SeqCst);
            let _ = FIRST_PANIC_AT.compare_exchange(usize::MAX, log_len(), Ordering::SeqCst, Ordering::SeqCst);
            std::panic::panic_any(Injected(site));
        }
    }
    guard
}

/// Source iterator instrumentation: call at entry of next(); returns whether the iterator was already busy.
#[inline]
pub fn src_enter() {
    if SRC_BUSY.swap(true, Ordering::SeqCst) {
        SRC_REENTRY.fetch_add(1, Ordering::SeqCst);
    }
    SRC_NEXTS.fetch_add(1, Ordering::SeqCst);
    record(Kind::SrcEnter, 0, 0, 0);
    let s = SRC_SPIN.load(Ordering::Relaxed);
    if s > 0 {
        spin(s);
        // now and then the thread holding the source pauses inside next(): others queue up behind it
        let n = SRC_NEXTS.load(Ordering::Relaxed);
        if mix(s as u64, n) % 61 == 0 {
            std::thread::sleep(std::time::Duration::from_micros(30 + (s as u64 % 200)));
        }
    }
}
#[inline]
pub fn src_exit(result: Option<u64>) {
    match result {
        Some(uid) => record(Kind::SrcSome, 0, 0, uid),
        None => record(Kind::SrcNone, 0, 0, 0),
    }
    SRC_BUSY.store(false, Ordering::SeqCst);
}

/// closure of the nested sources' own flat_map stage: counted as a user closure call (laziness), not as a chain stage
#[inline]
pub fn src_flat_call(group: u64) {
    crate::sched::yield_point();
    CLOSURE_CALLS.fetch_add(1, Ordering::SeqCst);
    record(Kind::SrcFlat, 0, 0, group);
}

/// Captured by every generated closure: a closure's captures are user values too - the library may clone a closure per
/// worker and drop the clone anywhere, e.g. between a decision and the bookkeeping that publishes it. Dropping a token is a
/// revocable yield point under schedules that make destructors yield points, and sleeps now and then in perturbed free runs.
pub struct Tok;
static TOK_DROPS: AtomicU64 = AtomicU64::new(0);
impl Clone for Tok {
    fn clone(&self) -> Self {
        Tok
    }
}
impl Drop for Tok {
    fn drop(&mut self) {
        if std::thread::panicking() {
            return;
        }
        crate::sched::closure_drop_yield_point();
        let seed = SPIN.load(Ordering::Relaxed);
        if SPIN_MAX.load(Ordering::Relaxed) > 0 && seed & 1 == 1 {
            let n = TOK_DROPS.fetch_add(1, Ordering::Relaxed);
            let r = mix(seed as u64 ^ 0x70C, n);
            match r % 5 {
                0 => std::thread::sleep(std::time::Duration::from_micros(50 + (r >> 16) % 400)),
                1 => std::thread::yield_now(),
                _ => {}
            }
        }
    }
}
