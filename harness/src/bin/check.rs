//! `check <ID> --tier quick|thorough --seed N [--shard i/n] --part <file> [--replay <file>]`
//! One process = one shard. The driver (/verif/bin/check) builds, shards, merges evidence and maps exit codes.

use proptest::strategy::{Strategy, ValueTree};
use proptest::test_runner::{Config, RngAlgorithm, RngSeed, TestCaseError, TestError, TestRng, TestRunner};
use serde_json::json;
use std::cell::RefCell;
use std::collections::{BTreeMap, BTreeSet};
use std::time::Instant;
use vharness::case::{Case, Mode};
use vharness::gen::case_strategy;
use vharness::known;
use vharness::props::{self, Fail, PropDef};
use vharness::shrink;

struct Stats {
    cases: u64,
    extra_runs: u64,
    skipped: u64,
    by_phase: BTreeMap<&'static str, u64>,
    labels: BTreeMap<String, u64>,
    distinct: BTreeSet<u64>,
    nontrivial: u64,
    excluded: BTreeMap<String, u64>,
    samples: Vec<serde_json::Value>,
    sampled_sched: bool,
    sampled_nontrivial: u32,
    /// set once a failure has been seen: proptest re-runs the closure while shrinking, those runs are not counted
    frozen: bool,
}

impl Stats {
    fn new() -> Self {
        Stats {
            cases: 0,
            extra_runs: 0,
            skipped: 0,
            by_phase: BTreeMap::new(),
            labels: BTreeMap::new(),
            distinct: BTreeSet::new(),
            nontrivial: 0,
            excluded: BTreeMap::new(),
            samples: vec![],
            sampled_sched: false,
            sampled_nontrivial: 0,
            frozen: false,
        }
    }
}

fn sig_class(sig: &str) -> &str {
    sig.split('|').next().unwrap_or(sig)
}

struct Ctx<'a> {
    def: &'a PropDef,
    stats: RefCell<Stats>,
    trace: Option<String>,
}

impl<'a> Ctx<'a> {
    /// evaluates one case; Err = violation that is not a listed open finding
    fn eval(&self, case: &Case, phase: &'static str) -> Result<(), Fail> {
        if let Some(path) = &self.trace {
            let _ = std::fs::write(path, case.to_json());
        }
        let t_case = Instant::now();
        let v = (self.def.check)(case);
        if let Ok(ms) = std::env::var("VERIF_SLOW_MS") {
            let el = t_case.elapsed().as_millis();
            if el > ms.parse::<u128>().unwrap_or(1000) {
                eprintln!("SLOW {el} ms: {} labels={:?}", case.to_json().chars().take(600).collect::<String>(), v.labels);
            }
        }
        let mut st = self.stats.borrow_mut();
        let counting = !st.frozen;
        if counting {
            st.cases += 1;
            st.extra_runs += v.extra_runs as u64;
            *st.by_phase.entry(phase).or_default() += 1;
        }
        if let Some(why) = &v.skipped {
            if counting {
                st.skipped += 1;
                *st.labels.entry(format!("skipped: {why}")).or_default() += 1;
            }
            return Ok(());
        }
        if counting {
            for l in &v.labels {
                *st.labels.entry(l.clone()).or_default() += 1;
            }
        }
        if let Some(f) = v.fail {
            if known::is_open(self.def.id, &f.sig) {
                if counting {
                    *st.excluded.entry(f.sig.clone()).or_default() += 1;
                }
                return Ok(());
            }
            return Err(f);
        }
        if counting && v.nontrivial {
            st.nontrivial += 1;
            st.distinct.insert(case.hash64());
            if st.sampled_nontrivial < 3 {
                st.sampled_nontrivial += 1;
                st.samples.push(json!({"phase": phase, "nontrivial": true, "case": serde_json::to_value(case).unwrap()}));
            }
        }
        if counting && !st.sampled_sched && case.is_sched() {
            st.sampled_sched = true;
            st.samples.push(json!({"phase": phase, "scheduled": true, "case": serde_json::to_value(case).unwrap()}));
        }
        if counting && st.samples.len() < 2 {
            st.samples.push(json!({"phase": phase, "case": serde_json::to_value(case).unwrap()}));
        }
        Ok(())
    }

    /// does the case still fail with a signature of the same class (and not a listed finding)?
    fn still_fails(&self, case: &Case, class: &str) -> bool {
        let reps = if case.is_sched() { 1 } else { 4 };
        for i in 0..reps {
            let t = Instant::now();
            let v = (self.def.check)(case);
            // expensive evaluations (e.g. an exhausted budget) are not repeated
            let slow = t.elapsed().as_millis() > 800;
            if let Some(f) = v.fail {
                if sig_class(&f.sig) == class && !known::is_open(self.def.id, &f.sig) {
                    return true;
                }
            }
            if slow && i >= 0 {
                break;
            }
        }
        false
    }
}

struct Args {
    id: String,
    tier: String,
    seed: u64,
    shard: (u32, u32),
    part: Option<String>,
    replay: Option<String>,
    known: String,
    replay_dir: String,
    trace: Option<String>,
    scale: f64,
    profile: String,
    phases: String,
    from_bytes: Option<String>,
}

fn parse_args() -> Args {
    let mut a = Args {
        id: String::new(),
        tier: std::env::var("VERIF_TIER").unwrap_or_else(|_| "quick".into()),
        seed: std::env::var("VERIF_SEED").ok().and_then(|s| s.parse().ok()).unwrap_or(1),
        shard: (0, 1),
        part: None,
        replay: None,
        known: "/verif/known_findings.json".into(),
        replay_dir: "/verif/replays".into(),
        trace: None,
        scale: 1.0,
        profile: "checked".into(),
        phases: "dense,free,sched,sched-long,sched-growth,tiny".into(),
        from_bytes: None,
    };
    let mut it = std::env::args().skip(1);
    while let Some(x) = it.next() {
        match x.as_str() {
            "--tier" => a.tier = it.next().expect("tier"),
            "--seed" => a.seed = it.next().expect("seed").parse().expect("seed is an integer"),
            "--shard" => {
                let s = it.next().expect("shard");
                let (i, n) = s.split_once('/').expect("i/n");
                a.shard = (i.parse().unwrap(), n.parse().unwrap());
            }
            "--part" => a.part = it.next(),
            "--replay" => a.replay = it.next(),
            "--known" => a.known = it.next().expect("path"),
            "--replay-dir" => a.replay_dir = it.next().expect("dir"),
            "--trace" => a.trace = it.next(),
            "--scale" => a.scale = it.next().expect("scale").parse().expect("float"),
            "--profile" => a.profile = it.next().expect("profile"),
            "--phases" => a.phases = it.next().expect("phases"),
            "--from-bytes" => a.from_bytes = it.next(),
            s if !s.starts_with("--") && a.id.is_empty() => a.id = s.to_string(),
            s => {
                eprintln!("unknown argument {s}");
                std::process::exit(2);
            }
        }
    }
    a
}

fn salt(id: &str) -> u64 {
    id.bytes().fold(0x5EED_0000u64, |h, b| h.wrapping_mul(131).wrapping_add(b as u64))
}

fn rng_seed_bytes(seed: u64) -> [u8; 32] {
    let mut out = [0u8; 32];
    let mut x = seed;
    for chunk in out.chunks_mut(8) {
        x = vharness::elem::mix(x, 0x9E37);
        chunk.copy_from_slice(&x.to_le_bytes());
    }
    out
}

fn write_replay(args: &Args, case: &Case, f: &Fail, phase: &str) -> String {
    let dir = format!("{}/{}", args.replay_dir, args.id);
    let _ = std::fs::create_dir_all(&dir);
    let path = format!("{}/{:016x}.json", dir, case.hash64());
    let body = json!({
        "property": args.id,
        "message": f.msg,
        "signature": f.sig,
        "phase": phase,
        "tier": args.tier,
        "seed": args.seed,
        "profile": args.profile,
        "case": serde_json::to_value(case).unwrap(),
    });
    std::fs::write(&path, serde_json::to_string_pretty(&body).unwrap()).expect("replay file written");
    path
}

fn write_part(args: &Args, def: &PropDef, st: &Stats, wall: f64, violations: u32, dense_total: usize, dense_exhaustive: bool) {
    let Some(path) = &args.part else { return };
    let body = json!({
        "property_id": def.id,
        "tier": args.tier,
        "seed": args.seed,
        "shard": [args.shard.0, args.shard.1],
        "profile": args.profile,
        "cases": st.cases,
        "extra_runs": st.extra_runs,
        "skipped": st.skipped,
        "by_phase": st.by_phase,
        "labels": st.labels,
        "nontrivial": st.nontrivial,
        "distinct_hashes": st.distinct.iter().collect::<Vec<_>>(),
        "excluded_known": st.excluded,
        "samples": st.samples,
        "wall_s": wall,
        "violations": violations,
        "dense_total": dense_total,
        "dense_complete": dense_exhaustive,
        "rule": def.rule,
        "assumptions": def.assumptions,
    });
    std::fs::write(path, serde_json::to_string(&body).unwrap()).expect("part written");
}

fn report_violation(args: &Args, ctx: &Ctx, case: Case, f: Fail, phase: &'static str) -> ! {
    use std::io::Write;
    ctx.stats.borrow_mut().frozen = true;
    let class = sig_class(&f.sig).to_string();
    // the failing case is on record before any (possibly slow) shrinking starts
    let prelim = write_replay(args, &case, &f, phase);
    println!("failure: {}", f.msg);
    println!("signature: {}", f.sig);
    println!("VIOLATION-PRELIM property={} replay={}", args.id, prelim);
    let _ = std::io::stdout().flush();
    // polish with the harness' own shrinker
    let (small, used) = shrink::shrink(&case, 250, 45, ctx.def.adjust, |c| ctx.still_fails(c, &class));
    // message / signature of the minimal case
    let mut fail = f;
    for _ in 0..4 {
        if let Some(f2) = (ctx.def.check)(&small).fail {
            fail = f2;
            break;
        }
    }
    let path = write_replay(args, &small, &fail, phase);
    println!("shrunk with {used} evaluations: {}", small.to_json());
    println!("failure: {}", fail.msg);
    println!("signature: {}", fail.sig);
    println!("VIOLATION property={} replay={}", args.id, path);
    let st = ctx.stats.borrow();
    write_part(args, ctx.def, &st, 0.0, 1, 0, false);
    std::process::exit(1);
}

fn main() {
    let args = parse_args();
    // silence the default panic message for injected panics; keep it for everything else
    let default_hook = std::panic::take_hook();
    std::panic::set_hook(Box::new(move |info| {
        if info.payload().downcast_ref::<vharness::obs::Injected>().is_some() {
            return;
        }
        if std::env::var("VERIF_VERBOSE_PANICS").is_ok() {
            default_hook(info);
        }
    }));
    known::load(&args.known);
    let defs = props::all();
    let Some(def) = defs.iter().find(|d| d.id == args.id) else {
        eprintln!("unknown property {}", args.id);
        std::process::exit(2);
    };
    // ---- a libFuzzer artifact (raw bytes): decode it into a case, save it as a replay file, then replay that
    let mut args = args;
    if let Some(bytes_path) = args.from_bytes.clone() {
        let data = std::fs::read(&bytes_path).expect("artifact readable");
        let profile = vharness::fuzz::profile_of(def.id).expect("property has a fuzz target");
        let case = (def.adjust)(vharness::bytes::decode(&data, profile));
        let dir = format!("{}/{}", args.replay_dir, def.id);
        let _ = std::fs::create_dir_all(&dir);
        let path = format!("{}/fuzz-{:016x}.json", dir, case.hash64());
        let body = json!({"property": def.id, "message": format!("decoded from libFuzzer artifact {bytes_path}"), "signature": "fuzz-artifact", "phase": "libfuzzer", "profile": "fuzz", "case": serde_json::to_value(&case).unwrap()});
        std::fs::write(&path, serde_json::to_string_pretty(&body).unwrap()).expect("replay written");
        println!("decoded artifact into {path}");
        args.replay = Some(path);
    }
    let ctx = Ctx {
        def,
        stats: RefCell::new(Stats::new()),
        trace: args.trace.clone(),
    };
    // ---- replay of a saved case
    if let Some(path) = &args.replay {
        let text = std::fs::read_to_string(path).expect("replay file readable");
        let val: serde_json::Value = serde_json::from_str(&text).expect("replay file is JSON");
        let case_v = val.get("case").cloned().unwrap_or(val);
        let case: Case = serde_json::from_value(case_v).expect("replay file holds a case");
        let reps = match case.mode {
            Mode::Sched(_) => 3,
            Mode::Free { .. } => 200,
        };
        for i in 0..reps {
            let v = (def.check)(&case);
            if let Some(f) = v.fail {
                if known::is_open(def.id, &f.sig) {
                    println!("KNOWN-FINDING: property={} {}", def.id, f.sig);
                    std::process::exit(0);
                }
                println!("failure (repetition {i}): {}", f.msg);
                println!("signature: {}", f.sig);
                println!("VIOLATION property={} replay={}", def.id, path);
                std::process::exit(1);
            }
        }
        println!("replay: no violation in {reps} repetitions");
        std::process::exit(0);
    }

    let t0 = Instant::now();
    let thorough = args.tier == "thorough";
    let (shard_i, shard_n) = args.shard;

    // ---- enumerated sub-domain
    let dense = if args.phases.split(',').any(|p| p == "dense") { (def.dense)(thorough, args.seed) } else { vec![] };
    let dense_total = dense.len();
    for (i, case) in dense.into_iter().enumerate() {
        if (i as u32) % shard_n != shard_i {
            continue;
        }
        let case = (def.adjust)(case);
        if let Err(f) = ctx.eval(&case, "dense") {
            report_violation(&args, &ctx, case, f, "dense");
        }
    }

    // ---- generated cases
    let (n_free, n_sched) = if thorough { def.thorough } else { def.quick };
    let long_cfg = def.long.as_ref().map(|x| x.0.clone());
    let n_long = def.long.as_ref().map(|x| if thorough { x.2 } else { x.1 }).unwrap_or(0);
    let growth_cfg = def.growth.as_ref().map(|x| x.0.clone());
    let n_growth = def.growth.as_ref().map(|x| if thorough { x.2 } else { x.1 }).unwrap_or(0);
    let phases: [(&'static str, &Option<vharness::gen::GenCfg>, u32); 4] = [
        ("free", &def.free, n_free),
        ("sched", &def.sched, n_sched),
        ("sched-long", &long_cfg, n_long),
        ("sched-growth", &growth_cfg, n_growth),
    ];
    for (phase, cfg, n) in phases {
        let Some(cfg) = cfg else { continue };
        if !args.phases.split(',').any(|p| p == phase) {
            continue;
        }
        let tp = Instant::now();
        let n = ((n as f64 * args.scale) as u32).div_ceil(shard_n);
        if n == 0 {
            continue;
        }
        let adjust = def.adjust;
        let strategy = case_strategy(cfg).prop_map(move |c| adjust(c));
        let seed = args.seed ^ salt(def.id) ^ ((shard_i as u64) << 40) ^ if phase == "sched" { 0xABCD_0000_0000 } else if phase == "sched-long" { 0x1234_0000_0000 } else if phase == "sched-growth" { 0x6A0_0000_0000 } else { 0 } ^ if args.profile == "checked" { 0 } else { 0x77 };
        let config = Config {
            cases: n,
            failure_persistence: None,
            max_shrink_iters: 600,
            max_shrink_time: 45_000,
            rng_algorithm: RngAlgorithm::ChaCha,
            rng_seed: RngSeed::Fixed(seed),
            ..Config::default()
        };
        let _ = rng_seed_bytes;
        let _: Option<TestRng> = None;
        let mut runner = TestRunner::new(config);
        let first_fail: RefCell<Option<String>> = RefCell::new(None);
        // the case that failed first, unshrunk (fallback when a shrunk free-mode case does not reproduce)
        let first_case: RefCell<Option<(Case, Fail)>> = RefCell::new(None);
        let result = runner.run(&strategy, |case| {
            // while proptest shrinks: keep to the signature class of the first failure
            match ctx.eval(&case, phase) {
                Ok(()) => Ok(()),
                Err(f) => {
                    ctx.stats.borrow_mut().frozen = true;
                    let class = sig_class(&f.sig).to_string();
                    let mut ff = first_fail.borrow_mut();
                    match &*ff {
                        None => {
                            *ff = Some(class);
                            *first_case.borrow_mut() = Some((case.clone(), f.clone()));
                            Err(TestCaseError::fail(f.msg))
                        }
                        Some(c) if *c == class => Err(TestCaseError::fail(f.msg)),
                        Some(_) => Ok(()),
                    }
                }
            }
        });
        match result {
            Ok(()) => {}
            Err(TestError::Fail(_, case)) => {
                let class = first_fail.borrow().clone().unwrap_or_default();
                match (0..8).find_map(|_| (def.check)(&case).fail.filter(|f| sig_class(&f.sig) == class)) {
                    Some(f) => report_violation(&args, &ctx, case, f, phase),
                    None => {
                        // schedule dependent and shrunk too far: report the case that actually failed
                        let (c0, f0) = first_case.borrow().clone().expect("a failure was recorded");
                        println!("note: proptest's shrunk case did not reproduce in 8 repetitions; reporting the originally failing case");
                        report_violation(&args, &ctx, c0, f0, phase);
                    }
                }
            }
            Err(TestError::Abort(why)) => {
                println!("INCONCLUSIVE proptest aborted: {why}");
                std::process::exit(2);
            }
        }
        let _ = strategy.new_tree(&mut TestRunner::deterministic()).map(|t| t.current());
        eprintln!("phase {phase}: {n} cases in {:.1}s", tp.elapsed().as_secs_f64());
    }

    // ---- exhaustive enumeration of the schedules of tiny configurations (thorough tier)
    let mut exhaustive = json!(null);
    if thorough && args.phases.split(',').any(|p| p == "tiny") {
        let tiny = (def.tiny)();
        let mut total_runs = 0u64;
        let mut complete = 0u64;
        let mut incomplete = 0u64;
        let max_runs_per_case = 30_000u64;
        for (i, base) in tiny.into_iter().enumerate() {
            if (i as u32) % shard_n != shard_i {
                continue;
            }
            let mut tape: Vec<u8> = vec![];
            let mut runs = 0u64;
            let mut done = false;
            while runs < max_runs_per_case {
                let mut case = base.clone();
                if let Mode::Sched(s) = &mut case.mode {
                    s.tape = tape.clone();
                }
                vharness::run::LAST_DECISIONS.lock().unwrap().clear();
                if let Err(f) = ctx.eval(&case, "tiny-exhaustive") {
                    report_violation(&args, &ctx, case, f, "tiny-exhaustive");
                }
                runs += 1;
                // decisions of the primary run: concatenated over the runs of the case (eager stages run first)
                let dec: Vec<(u8, u8)> = vharness::run::LAST_DECISIONS.lock().unwrap().first().cloned().unwrap_or_default();
                // next tape in depth-first order
                let mut i = dec.len();
                let mut next: Option<Vec<u8>> = None;
                while i > 0 {
                    i -= 1;
                    let (n, chosen) = dec[i];
                    if chosen + 1 < n {
                        let mut t: Vec<u8> = dec[..i].iter().map(|d| d.1).collect();
                        t.push(chosen + 1);
                        next = Some(t);
                        break;
                    }
                }
                match next {
                    Some(t) => tape = t,
                    None => {
                        done = true;
                        break;
                    }
                }
            }
            total_runs += runs;
            if done {
                complete += 1;
            } else {
                incomplete += 1;
            }
        }
        exhaustive = json!({"schedules_run": total_runs, "configurations_completely_enumerated": complete, "configurations_cut_off_at_30000_schedules": incomplete});
        eprintln!("tiny-exhaustive: {total_runs} schedules, {complete} configurations complete, {incomplete} cut off");
    }
    let st = ctx.stats.borrow();
    if let Some(path) = &args.part {
        let _ = std::fs::write(format!("{path}.tiny"), exhaustive.to_string());
    }
    write_part(&args, def, &st, t0.elapsed().as_secs_f64(), 0, dense_total, true);
    println!(
        "shard {}/{} of {}: {} cases, {} non-trivial ({} distinct), {} excluded as known findings, {:.1}s",
        shard_i,
        shard_n,
        def.id,
        st.cases,
        st.nontrivial,
        st.distinct.len(),
        st.excluded.values().sum::<u64>(),
        t0.elapsed().as_secs_f64()
    );
}
