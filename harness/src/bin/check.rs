fn main(){}
