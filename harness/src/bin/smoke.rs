use vharness::case::*;
use vharness::elem::*;
use vharness::run::run_case;
use vharness::model;
use vharness::chain::Out;
use vharness::sched::{Schedule, Policy};
fn main() {
    let mk = |mode: Mode, term: Term, source: Source| Case {
        source,
        input: (0..40).map(|i| (i * 7 % 16) as u32).collect(),
        chain: vec![
            Stage { kind: StageKind::Map, k: 3, mask: 0, fan: 0 },
            Stage { kind: StageKind::Filter, k: 0, mask: 0x0ff0, fan: 0 },
            Stage { kind: StageKind::FlatMap, k: 5, mask: 0, fan: 2 },
        ],
        params: vec![ParamOp { pos: 0, kind: ParamKind::Threads(Nt::Max(4)) }, ParamOp { pos: 1, kind: ParamKind::Chunk(Cs::Exact(2)) }],
        term,
        mode,
        faults: vec![],
    };
    for source in [Source::VecOwned, Source::Iter { hint: Hint::Zero }] {
    for mode in [Mode::Free { spin_seed: 1, spin_max: 50, src_spin: 0 }, Mode::Sched(Schedule { policy: Policy::Uniform, tape: (0..200).map(|i| (i * 37 % 256) as u8).collect(), weights: vec![1; 18] })] {
        for term in [Term::CollectVec, Term::Count, Term::Reduce { op: RedOp::Add }, Term::Find { mask: 0x0008 }] {
            let case = mk(mode.clone(), term, source);
            let t = std::time::Instant::now();
            let r = run_case(&case);
            let m = model::full(&case);
            let ok = match &r.out {
                Ok(Out::Seq(v)) => *v == m.out_v(),
                Ok(Out::Count(c)) => *c == m.out.len(),
                Ok(Out::Opt(o)) => { println!("   opt {:?}", o); true }
                _ => false,
            };
            println!("{:?} {:?} ok={} log={} drops={:?} handovers={} snaps={} t={:?}", case.source, case.term, ok, r.log.len(), r.drops, r.sched.hand_overs, r.snaps.iter().map(|s| format!("{}:{}", s.step, s.ty)).collect::<Vec<_>>().join(","), t.elapsed());
        }
    }}
}
