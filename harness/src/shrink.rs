//! Harness-side shrinker: greedy structural simplification of a failing case (used for enumerated and fuzz-found
//! cases, and as a polish after proptest's own shrinking).

use crate::case::*;
use crate::run::{max_depth, term_supported, with_index_shape_ok};
use crate::sched::Policy;

fn fix_positions(c: &mut Case) {
    let n = c.chain.len() as u8;
    for p in c.params.iter_mut() {
        p.pos = p.pos.min(n);
    }
    for f in c.faults.iter_mut() {
        if let crate::obs::Site::Stage(s) = f.site {
            if c.chain.is_empty() {
                f.site = crate::obs::Site::Pred;
            } else if s as usize >= c.chain.len() {
                f.site = crate::obs::Site::Stage(c.chain.len() as u8 - 1);
            }
        }
    }
}

/// is the case executable by the harness (depth / terminal instantiated for the source)?
pub fn executable(c: &Case) -> bool {
    let with_index = matches!(c.term, Term::FindIdx { .. } | Term::FirstIdx);
    if with_index {
        return matches!(c.source, Source::VecOwned | Source::Iter { .. } | Source::Endless { .. }) && with_index_shape_ok(&c.chain);
    }
    c.chain.len() <= max_depth(c.source)
        && term_supported(c.source, c.chain.len(), &c.term)
        && (c.source != Source::ArrayRef || c.input.len() == 6)
}

fn candidates(c: &Case) -> Vec<Case> {
    let mut out = vec![];
    let mut push = |mut x: Case| {
        fix_positions(&mut x);
        if x != *c && executable(&x) {
            out.push(x);
        }
    };
    // input
    let n = c.input.len();
    if n > 0 && c.source != Source::ArrayRef {
        for keep in [n / 2, n - n / 4, n - 1] {
            if keep < n {
                let mut x = c.clone();
                x.input.truncate(keep);
                push(x);
                let mut y = c.clone();
                y.input = y.input[n - keep..].to_vec();
                push(y);
            }
        }
        if n <= 24 {
            for i in 0..n {
                let mut x = c.clone();
                x.input.remove(i);
                push(x);
            }
        }
    }
    // chain
    for i in 0..c.chain.len() {
        let mut x = c.clone();
        x.chain.remove(i);
        for p in x.params.iter_mut() {
            if p.pos as usize > i {
                p.pos -= 1;
            }
        }
        push(x);
    }
    // params
    for i in 0..c.params.len() {
        let mut x = c.clone();
        x.params.remove(i);
        push(x);
        let mut y = c.clone();
        y.params[i].kind = match y.params[i].kind {
            ParamKind::Threads(Nt::Max(n)) if n > 2 => ParamKind::Threads(Nt::Max(n - 1)),
            ParamKind::Threads(Nt::Usize(n)) if n > 2 => ParamKind::Threads(Nt::Max(n - 1)),
            ParamKind::Threads(Nt::Auto) => ParamKind::Threads(Nt::Max(4)),
            ParamKind::Chunk(Cs::Exact(n)) if n > 1 => ParamKind::Chunk(Cs::Exact(n / 2)),
            ParamKind::Chunk(Cs::Min(n)) if n > 1 => ParamKind::Chunk(Cs::Min(n / 2)),
            ParamKind::Chunk(Cs::Usize(n)) if n > 1 => ParamKind::Chunk(Cs::Exact(n / 2)),
            k => k,
        };
        push(y);
        if c.params[i].pos > 0 {
            let mut z = c.clone();
            z.params[i].pos = 0;
            push(z);
        }
    }
    // terminal
    if let Term::CollectInto { target, prefix, spare } = &c.term {
        if !prefix.is_empty() {
            let mut x = c.clone();
            x.term = Term::CollectInto {
                target: *target,
                prefix: prefix[..prefix.len() / 2].to_vec(),
                spare: *spare,
            };
            push(x);
        }
        if *spare > 0 {
            let mut x = c.clone();
            x.term = Term::CollectInto {
                target: *target,
                prefix: prefix.clone(),
                spare: 0,
            };
            push(x);
        }
    }
    // faults
    for i in 0..c.faults.len() {
        if c.faults.len() > 1 {
            let mut x = c.clone();
            x.faults.remove(i);
            push(x);
        }
    }
    // mode
    match &c.mode {
        Mode::Free { spin_seed, spin_max, src_spin } => {
            if *spin_max > 0 || *src_spin > 0 {
                let mut x = c.clone();
                x.mode = Mode::Free {
                    spin_seed: *spin_seed,
                    spin_max: 0,
                    src_spin: 0,
                };
                push(x);
            }
        }
        Mode::Sched(s) => {
            if !s.tape.is_empty() {
                let mut x = c.clone();
                if let Mode::Sched(s2) = &mut x.mode {
                    s2.tape.truncate(s.tape.len() / 2);
                }
                push(x);
                let mut y = c.clone();
                if let Mode::Sched(s2) = &mut y.mode {
                    s2.tape.pop();
                }
                push(y);
            }
            if s.weights.iter().any(|w| *w != 1) {
                let mut x = c.clone();
                if let Mode::Sched(s2) = &mut x.mode {
                    s2.weights = vec![1; 18];
                }
                push(x);
            }
            if s.src_yield != 0 {
                let mut x = c.clone();
                if let Mode::Sched(s2) = &mut x.mode {
                    s2.src_yield = 0;
                }
                push(x);
            }
            if s.drop_yield != 0 {
                let mut x = c.clone();
                if let Mode::Sched(s2) = &mut x.mode {
                    s2.drop_yield = 0;
                }
                push(x);
            }
            if s.policy != Policy::Uniform {
                let mut x = c.clone();
                if let Mode::Sched(s2) = &mut x.mode {
                    s2.policy = Policy::Uniform;
                }
                push(x);
            }
            for i in 0..s.tape.len().min(48) {
                if s.tape[i] != 0 {
                    let mut x = c.clone();
                    if let Mode::Sched(s2) = &mut x.mode {
                        s2.tape[i] = 0;
                    }
                    push(x);
                }
            }
        }
    }
    // source
    if !matches!(c.source, Source::VecOwned) {
        let mut x = c.clone();
        x.source = Source::VecOwned;
        push(x);
    }
    // values
    if c.input.iter().any(|v| *v != 0) && c.input.len() <= 64 {
        for i in 0..c.input.len() {
            if c.input[i] != 0 {
                let mut x = c.clone();
                x.input[i] = 0;
                push(x);
            }
        }
    }
    out
}

/// Greedy descent: accept the first simpler candidate that still fails; stop at a fixpoint or after `budget` evaluations.
/// `fix` re-establishes the generator's invariants on a candidate (e.g. re-plants the match a property's domain requires);
/// the effort is bounded by `budget` evaluations and by `max_secs` of wall-clock time (shrinking effort only - never an oracle).
pub fn shrink(
    case: &Case,
    budget: usize,
    max_secs: u64,
    fix: impl Fn(Case) -> Case,
    mut still_fails: impl FnMut(&Case) -> bool,
) -> (Case, usize) {
    let mut cur = case.clone();
    let mut used = 0usize;
    let t0 = std::time::Instant::now();
    'outer: loop {
        for cand in candidates(&cur) {
            if used >= budget || t0.elapsed().as_secs() >= max_secs {
                break 'outer;
            }
            let cand = fix(cand);
            if cand == cur || !executable(&cand) {
                continue;
            }
            used += 1;
            if still_fails(&cand) {
                cur = cand;
                continue 'outer;
            }
        }
        break;
    }
    (cur, used)
}
