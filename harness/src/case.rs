//! The generated case: everything a run depends on. Its JSON form is the replay file format.

use crate::elem::RedOp;
use crate::obs::Site;
use crate::sched::Schedule;
use serde::{Deserialize, Serialize};

#[derive(Clone, Copy, Debug, PartialEq, Eq, Serialize, Deserialize)]
pub enum Hint {
    /// size_hint = (remaining, Some(remaining)): length known
    Exact,
    /// size_hint = (0, None)
    Zero,
    /// size_hint = (remaining/2, None)
    Lower,
    /// size_hint = (remaining/2, Some(2*remaining+1))
    Loose,
}

#[derive(Clone, Copy, Debug, PartialEq, Eq, Serialize, Deserialize)]
pub enum Coll {
    VecDeque,
    BTreeSet,
    HashSet,
    LinkedList,
    BinaryHeap,
    BTreeMap,
    HashMap,
}

#[derive(Clone, Copy, Debug, PartialEq, Eq, Serialize, Deserialize)]
pub enum Source {
    /// `Vec<E>::into_par()`
    VecOwned,
    /// `vec.par()` (items `&E`)
    VecRef,
    /// `slice.par()` on a sub-slice starting at `skip` (items `&E`)
    SliceRef { skip: u8 },
    /// `(&[E]).into_par()`
    SliceIntoPar,
    /// `[E; 6].par()` (input truncated / padded to 6)
    ArrayRef,
    /// `(start..start+len).into_par()` (items `usize`)
    Range { start: u16 },
    /// `(start..start+len).par()` - the range used as a by-value iterator (items `usize`)
    RangeIter { start: u16 },
    /// `slice.con_iter().cloned().into_par()` (items `E`)
    ClonedSlice,
    /// `vec.par().cloned()` : map-based (items `E`)
    ParCloned,
    /// `nested.par().flat_map(|v| v.iter()).cloned()` over a `Vec<Vec<E>>` (groups of 0..=3 elements): the adapters after a
    /// stage that yields references (items `E`)
    NestedCloned,
    /// `nested.par().flat_map(|v| v.iter()).copied()` over a `Vec<Vec<usize>>` (items `usize`)
    NestedCopied { start: u16 },
    /// instrumented by-value iterator with the given size hint behaviour
    Iter { hint: Hint },
    /// instrumented endless by-value iterator cycling over the input; ends (and sets the trip flag) after `budget` elements
    Endless { budget: u32 },
    /// std collection, by value (`into_par`) or by reference (`par`)
    Coll { kind: Coll, by_ref: bool },
}

impl Source {
    /// items are references into harness-owned data (no arithmetic reduce ops before the first mapping stage)
    pub fn yields_ref(self) -> bool {
        matches!(
            self,
            Source::VecRef
                | Source::SliceRef { .. }
                | Source::SliceIntoPar
                | Source::ArrayRef
                | Source::Coll { by_ref: true, .. }
        )
    }
    pub fn yields_pair(self) -> bool {
        matches!(
            self,
            Source::Coll {
                kind: Coll::BTreeMap | Coll::HashMap,
                ..
            }
        )
    }
    pub fn yields_usize(self) -> bool {
        matches!(self, Source::Range { .. } | Source::RangeIter { .. } | Source::NestedCopied { .. })
    }
    /// is the source a by-value `Iterator` wrapped into a concurrent iterator (pulls serialised)?
    pub fn is_iter_backed(self) -> bool {
        matches!(
            self,
            Source::Iter { .. } | Source::Endless { .. } | Source::Coll { .. } | Source::RangeIter { .. }
        )
    }
    pub fn is_instrumented_iter(self) -> bool {
        matches!(self, Source::Iter { .. } | Source::Endless { .. })
    }
    /// length known to the library up front?
    pub fn known_len(self) -> bool {
        match self {
            Source::Iter { hint } => hint == Hint::Exact,
            Source::Endless { .. } => false,
            // std collection iterators and ranges report exact size hints
            _ => true,
        }
    }
    pub fn owning(self) -> bool {
        matches!(
            self,
            Source::VecOwned | Source::Iter { .. } | Source::Endless { .. } | Source::Coll { by_ref: false, .. }
        )
    }
}

#[derive(Clone, Copy, Debug, PartialEq, Eq, Serialize, Deserialize)]
pub enum StageKind {
    Map,
    Filter,
    FlatMap,
    FilterMap,
}

#[derive(Clone, Copy, Debug, PartialEq, Eq, Serialize, Deserialize)]
pub struct Stage {
    pub kind: StageKind,
    /// seed of the value transformation (Map, FlatMap, FilterMap)
    pub k: u32,
    /// Filter / FilterMap keep the element iff bit `val % 16` of the mask is set
    pub mask: u16,
    /// FlatMap yields 0..=fan values per element
    pub fan: u8,
}

#[derive(Clone, Copy, Debug, PartialEq, Eq, Serialize, Deserialize)]
pub enum Nt {
    Auto,
    Max(usize),
    /// through `From<usize>` (0 = Auto)
    Usize(usize),
}
#[derive(Clone, Copy, Debug, PartialEq, Eq, Serialize, Deserialize)]
pub enum Cs {
    Auto,
    Exact(usize),
    Min(usize),
    /// through `From<usize>` (0 = Auto)
    Usize(usize),
}
#[derive(Clone, Copy, Debug, PartialEq, Eq, Serialize, Deserialize)]
pub enum ParamKind {
    Threads(Nt),
    Chunk(Cs),
}
#[derive(Clone, Copy, Debug, PartialEq, Eq, Serialize, Deserialize)]
pub struct ParamOp {
    /// applied before stage `pos` (pos == chain.len(): just before the terminal)
    pub pos: u8,
    pub kind: ParamKind,
}

#[derive(Clone, Copy, Debug, PartialEq, Eq, Serialize, Deserialize)]
pub enum Target {
    Vec,
    SplitDoubling,
    SplitLinear,
    Fixed,
}

#[derive(Clone, Debug, PartialEq, Eq, Serialize, Deserialize)]
pub enum Term {
    CollectVec,
    Collect,
    CollectInto {
        target: Target,
        prefix: Vec<u32>,
        /// extra capacity reserved in the target beyond the prefix
        spare: u16,
    },
    CollectX,
    Count,
    ForEach,
    Reduce { op: RedOp },
    Fold { op: RedOp },
    Sum,
    Min,
    Max,
    MinBy,
    MaxBy,
    MinByKey,
    MaxByKey,
    Find { mask: u16 },
    First,
    Any { mask: u16 },
    All { mask: u16 },
    /// concrete shapes only
    FindIdx { mask: u16 },
    FirstIdx,
    /// build the computation, read params() after every step, run nothing
    ParamsOnly,
}

impl Term {
    pub fn is_short_circuit(&self) -> bool {
        matches!(
            self,
            Term::Find { .. } | Term::First | Term::Any { .. } | Term::All { .. } | Term::FindIdx { .. } | Term::FirstIdx
        )
    }
    pub fn name(&self) -> &'static str {
        match self {
            Term::CollectVec => "collect_vec",
            Term::Collect => "collect",
            Term::CollectInto { .. } => "collect_into",
            Term::CollectX => "collect_x",
            Term::Count => "count",
            Term::ForEach => "for_each",
            Term::Reduce { .. } => "reduce",
            Term::Fold { .. } => "fold",
            Term::Sum => "sum",
            Term::Min => "min",
            Term::Max => "max",
            Term::MinBy => "min_by",
            Term::MaxBy => "max_by",
            Term::MinByKey => "min_by_key",
            Term::MaxByKey => "max_by_key",
            Term::Find { .. } => "find",
            Term::First => "first",
            Term::Any { .. } => "any",
            Term::All { .. } => "all",
            Term::FindIdx { .. } => "find_with_index",
            Term::FirstIdx => "first_with_index",
            Term::ParamsOnly => "params_only",
        }
    }
    /// does the terminal call user closures of the reduce family (operator, key, compare, identity)?
    pub fn is_reduce_family(&self) -> bool {
        matches!(
            self,
            Term::Reduce { .. }
                | Term::Fold { .. }
                | Term::Sum
                | Term::Min
                | Term::Max
                | Term::MinBy
                | Term::MaxBy
                | Term::MinByKey
                | Term::MaxByKey
        )
    }
}

#[derive(Clone, Debug, PartialEq, Eq, Serialize, Deserialize)]
pub enum Mode {
    /// real OS threads race; closures spin up to `spin_max` iterations derived from `spin_seed`
    Free { spin_seed: u32, spin_max: u32, src_spin: u32 },
    /// the harness owns the schedule
    Sched(Schedule),
}

#[derive(Clone, Copy, Debug, PartialEq, Eq, Serialize, Deserialize)]
pub enum At {
    /// n-th call of the site, counted over all threads
    Nth(u32),
    /// the call whose argument is the `i`-th argument the sequential model feeds to that site (modulo their number)
    Arg(u32),
}
#[derive(Clone, Copy, Debug, PartialEq, Eq, Serialize, Deserialize)]
pub struct Fault {
    pub site: Site,
    pub at: At,
}

#[derive(Clone, Debug, PartialEq, Eq, Serialize, Deserialize)]
pub struct Case {
    pub source: Source,
    pub input: Vec<u32>,
    pub chain: Vec<Stage>,
    pub params: Vec<ParamOp>,
    pub term: Term,
    pub mode: Mode,
    pub faults: Vec<Fault>,
}

impl Case {
    pub fn to_json(&self) -> String {
        serde_json::to_string(self).expect("case serialises")
    }
    pub fn from_json(s: &str) -> Result<Case, String> {
        serde_json::from_str(s).map_err(|e| e.to_string())
    }
    /// stable 64-bit hash of the case (distinctness counting)
    pub fn hash64(&self) -> u64 {
        let s = self.to_json();
        let mut h = 0xcbf29ce484222325u64;
        for b in s.as_bytes() {
            h ^= *b as u64;
            h = h.wrapping_mul(0x100000001b3);
        }
        h
    }
    /// same, ignoring the execution mode (two schedules of one computation are still two cases; this is for labels)
    pub fn shape(&self) -> String {
        self.chain
            .iter()
            .map(|s| match s.kind {
                StageKind::Map => "M",
                StageKind::Filter => "F",
                StageKind::FlatMap => "X",
                StageKind::FilterMap => "O",
            })
            .collect()
    }

    /// Parameters in effect after all operations with `pos <= upto` ("last write per field wins").
    pub fn params_model(&self, upto: usize) -> (NtModel, CsModel) {
        let mut nt = NtModel::Auto;
        let mut cs = CsModel::Auto;
        // stable order: by position, then by order of appearance
        let mut ops: Vec<(usize, &ParamOp)> = self.params.iter().enumerate().collect();
        ops.sort_by_key(|(i, p)| (p.pos, *i));
        for (_, p) in ops {
            if p.pos as usize > upto {
                continue;
            }
            match p.kind {
                ParamKind::Threads(n) => nt = nt_model(n),
                ParamKind::Chunk(c) => cs = cs_model(c),
            }
        }
        (nt, cs)
    }
    pub fn final_params(&self) -> (NtModel, CsModel) {
        self.params_model(usize::MAX)
    }
    /// parameter ops in application order
    pub fn ordered_params(&self) -> Vec<ParamOp> {
        let mut ops: Vec<(usize, ParamOp)> = self.params.iter().copied().enumerate().collect();
        ops.sort_by_key(|(i, p)| (p.pos.min(self.chain.len() as u8), *i));
        ops.into_iter()
            .map(|(_, mut p)| {
                p.pos = p.pos.min(self.chain.len() as u8);
                p
            })
            .collect()
    }
    pub fn is_sequential(&self) -> bool {
        self.final_params().0 == NtModel::Max(1)
    }
    pub fn is_sched(&self) -> bool {
        matches!(self.mode, Mode::Sched(_))
    }
}

#[derive(Clone, Copy, Debug, PartialEq, Eq, Serialize)]
pub enum NtModel {
    Auto,
    Max(usize),
}
#[derive(Clone, Copy, Debug, PartialEq, Eq, Serialize)]
pub enum CsModel {
    Auto,
    Exact(usize),
    Min(usize),
}
pub fn nt_model(n: Nt) -> NtModel {
    match n {
        Nt::Auto | Nt::Usize(0) => NtModel::Auto,
        Nt::Max(n) | Nt::Usize(n) => NtModel::Max(n),
    }
}
pub fn cs_model(c: Cs) -> CsModel {
    match c {
        Cs::Auto | Cs::Usize(0) => CsModel::Auto,
        Cs::Exact(c) | Cs::Usize(c) => CsModel::Exact(c),
        Cs::Min(c) => CsModel::Min(c),
    }
}
