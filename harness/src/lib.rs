pub mod case;
pub mod chain;
pub mod elem;
pub mod model;
pub mod obs;
pub mod run;
pub mod sched;
