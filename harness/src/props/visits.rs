//! C05 closures run exactly once per element / source advanced by one thread at a time; C09 sequential mode.

use super::results::check_reduce_value;
use super::*;
use crate::model::{lazy_find, shapes, MEv};
use crate::run::term_supported;

fn stage_calls(log: &[Ev]) -> Vec<(u8, u64)> {
    log.iter().filter(|e| e.kind == Kind::Stage).map(|e| (e.stage, e.uid)).collect()
}

fn check_c05(case: &Case) -> Verdict {
    let (r, m) = match run_basic(case) {
        Ok(x) => x,
        Err(v) => return v,
    };
    let mut v = Verdict::default();
    common_labels(case, &r, &mut v);
    let short = r.term.is_short_circuit();
    let mut got = stage_calls(&r.log);
    got.sort();
    let mut exp: Vec<(u8, u64)> = m.full_log.iter().map(|e| (e.stage, e.uid)).collect();
    exp.sort();
    let sig = |what: &str| generic_sig(case, what);
    if !short {
        if got != exp {
            // name the first stage whose call multiset differs
            let mut detail = String::new();
            for s in 0..case.chain.len() as u8 {
                let g = got.iter().filter(|x| x.0 == s).count();
                let e = exp.iter().filter(|x| x.0 == s).count();
                let gs: Vec<_> = got.iter().filter(|x| x.0 == s).collect();
                let es: Vec<_> = exp.iter().filter(|x| x.0 == s).collect();
                if gs != es {
                    detail = format!("stage {s} ({:?}) was called {g} times, sequentially {e} times", case.chain[s as usize].kind);
                    break;
                }
            }
            v.fail = Some(Verdict::fail(
                format!("closure call multiset differs from the sequential one: {detail}"),
                sig("calls"),
            ));
            return v;
        }
    } else {
        // the statement for short-circuit terminals: each closure at most once per element (nothing more is asserted)
        for w in got.windows(2) {
            if w[0] == w[1] {
                v.fail = Some(Verdict::fail(
                    format!("stage {} was called twice with the same element", w[0].0),
                    sig("called-twice"),
                ));
                return v;
            }
        }
        let mut preds: Vec<u64> = r.log.iter().filter(|e| e.kind == Kind::Pred).map(|e| e.uid).collect();
        preds.sort();
        if preds.windows(2).any(|w| w[0] == w[1]) {
            v.fail = Some(Verdict::fail("the predicate was evaluated twice on the same element", sig("pred-twice")));
            return v;
        }
    }
    // terminal closures of full-visit terminals
    if matches!(r.term, Term::ForEach) {
        let mut fe: Vec<u64> = r.log.iter().filter(|e| e.kind == Kind::ForEach).map(|e| e.uid).collect();
        fe.sort();
        let mut ex: Vec<u64> = m.out.iter().map(|x| x.0.uid).collect();
        ex.sort();
        if fe != ex {
            v.fail = Some(Verdict::fail("for_each body calls differ from the sequential multiset", sig("for_each")));
            return v;
        }
    }
    // the source
    if case.source.is_instrumented_iter() {
        if r.src_reentries > 0 {
            v.fail = Some(Verdict::fail(
                format!("the source iterator's next() was entered concurrently {} times", r.src_reentries),
                sig("source-reentered"),
            ));
            return v;
        }
        let mut yielded: Vec<u64> = r.log.iter().filter(|e| e.kind == Kind::SrcSome).map(|e| e.uid).collect();
        yielded.sort();
        if yielded.windows(2).any(|w| w[0] == w[1]) {
            v.fail = Some(Verdict::fail("harness: source yielded an element twice", "harness"));
            return v;
        }
        if !case.chain.is_empty() {
            let mut fed: Vec<u64> = r.log.iter().filter(|e| e.kind == Kind::Stage && e.stage == 0).map(|e| e.uid).collect();
            fed.sort();
            if !short {
                if fed != yielded {
                    v.fail = Some(Verdict::fail(
                        format!("the source yielded {} elements but {} were fed to the first stage", yielded.len(), fed.len()),
                        sig("source-elements-lost-or-duplicated"),
                    ));
                    return v;
                }
                let mut all: Vec<u64> = m.src.iter().map(|x| x.uid).collect();
                all.sort();
                if yielded != all {
                    v.fail = Some(Verdict::fail("the source was not consumed completely by a full-visit terminal", sig("source-not-consumed")));
                    return v;
                }
            } else {
                let ys: std::collections::BTreeSet<u64> = yielded.iter().copied().collect();
                if fed.iter().any(|u| !ys.contains(u)) {
                    v.fail = Some(Verdict::fail("first stage fed with an element the source never yielded", sig("source-invented")));
                    return v;
                }
            }
        }
        let pullers: std::collections::BTreeSet<u16> = r.log.iter().filter(|e| e.kind == Kind::SrcEnter).map(|e| e.tid).collect();
        if pullers.len() >= 2 {
            v.label(">=2 threads advanced the source iterator");
        }
    }
    let stage0_threads: std::collections::BTreeSet<u16> = r.log.iter().filter(|e| e.kind == Kind::Stage && e.stage == 0).map(|e| e.tid).collect();
    v.nontrivial = !case.is_sequential() && stage0_threads.len() >= 2;
    v
}

fn dense_c05(thorough: bool, _seed: u64) -> Vec<Case> {
    let terms = [
        Term::CollectVec,
        Term::Count,
        Term::Reduce { op: RedOp::Add },
        Term::ForEach,
        Term::CollectX,
        Term::Find { mask: 0x0180 },
        Term::First,
    ];
    let mut out = vec![];
    let mut n = 0u32;
    for kinds in all_shapes(3) {
        for source in [Source::Iter { hint: Hint::Zero }, Source::Iter { hint: Hint::Exact }] {
            for term in &terms {
                n += 1;
                if !term_supported(source, kinds.len(), term) {
                    continue;
                }
                if !thorough && n % 2 == 1 {
                    continue;
                }
                out.push(Case {
                    source,
                    input: det_input(36, 0xC05 ^ n as u64),
                    chain: chain_of(&kinds, n),
                    params: vec![p_threads(0, 2 + (n as usize % 6)), p_chunk(0, [Cs::Exact(1), Cs::Exact(2), Cs::Min(3), Cs::Auto][n as usize % 4])],
                    term: term.clone(),
                    mode: Mode::Free {
                        spin_seed: n,
                        spin_max: 40,
                        src_spin: 30,
                    },
                    faults: vec![],
                });
            }
        }
    }
    out
}

pub fn c05() -> PropDef {
    PropDef {
        id: "C05",
        rule: "cases: proptest over (source - half of them instrumented by-value iterators with a re-entrancy flag and a spin inside next() -, input, chain with every stage instrumented, params, any terminal, mode) + 85 chain shapes x 2 iterator sources x 7 terminals; oracle: multiset of (stage, argument) calls == std model's for full-visit terminals, no repeated/invented call for short-circuit terminals, source never re-entered and every yielded element fed to stage 0 exactly once; non-trivial: parallel and >=2 distinct threads called the first stage; distinct by case hash",
        free: mk_free(|c| {
            c.terms = vec![
                TermClass::Collect,
                TermClass::CollectX,
                TermClass::Count,
                TermClass::ForEach,
                TermClass::ReduceFamily,
                TermClass::ShortCircuit,
                TermClass::CollectIntoPrefixed,
            ];
            c.min_chain = 1;
        }),
        sched: mk_sched(|c| {
            c.terms = vec![
                TermClass::Collect,
                TermClass::CollectX,
                TermClass::Count,
                TermClass::ForEach,
                TermClass::ReduceFamily,
                TermClass::ShortCircuit,
            ];
            c.min_chain = 1;
            c.src = SrcClass::Deep;
        }),
        quick: (9000, 2400),
        thorough: (60000, 12000),
        dense: dense_c05,
        check: check_c05,
        adjust: no_adjust,
        assumptions: COMMON_ASSUMPTIONS,
        tiny: no_tiny,
        long: None,
        growth: None,
    }
}

// ------------------------------------------------------------------------------------------------ C09

fn check_c09(case: &Case) -> Verdict {
    let (r, m) = match run_basic(case) {
        Ok(x) => x,
        Err(v) => return v,
    };
    let mut v = Verdict::default();
    common_labels(case, &r, &mut v);
    let sig = |what: &str| generic_sig(case, what);
    // everything on the calling thread, no run, no worker
    if let Some(e) = r.log.iter().find(|e| e.kind.is_closure() && e.tid != 0) {
        v.fail = Some(Verdict::fail(
            format!("closure {:?} (stage {}) ran on thread {} although num_threads(1) is set on the source", e.kind, e.stage, e.tid),
            sig("off-caller"),
        ));
        return v;
    }
    if r.log.iter().any(|e| matches!(e.kind, Kind::RunBegin | Kind::WorkerBegin)) {
        v.fail = Some(Verdict::fail("a parallel run was started although num_threads(1) is set on the source", sig("spawned")));
        return v;
    }
    let (_, final_shape, eager) = shapes(&case.chain);
    let _ = final_shape;
    let short = r.term.is_short_circuit();
    // per stage ordered argument sequences
    for s in 0..case.chain.len() as u8 {
        let got: Vec<u64> = r.log.iter().filter(|e| e.kind == Kind::Stage && e.stage == s).map(|e| e.uid).collect();
        let full: Vec<u64> = m.stage_args(s);
        if !short {
            if got != full {
                let i = got.iter().zip(full.iter()).position(|(a, b)| a != b).unwrap_or(got.len().min(full.len()));
                v.fail = Some(Verdict::fail(
                    format!("stage {s} saw its elements in a different order/number than sequentially (first difference at call {i}; {} vs {} calls)", got.len(), full.len()),
                    sig("stage-order"),
                ));
                return v;
            }
        } else if got.len() > full.len() || got[..] != full[..got.len()] {
            // short-circuit terminals see a prefix of the sequential order (how long depends on laziness, which is C10/C16)
            v.fail = Some(Verdict::fail(format!("stage {s} did not see a prefix of the sequential argument order"), sig("stage-order")));
            return v;
        }
    }
    // values
    let out = m.out_v();
    let bad = |got: &dyn std::fmt::Debug, exp: &dyn std::fmt::Debug| Verdict::fail(format!("{} returned {:?}, sequentially {:?}", r.term.name(), got, exp), sig("value"));
    match (&r.term, &r.out) {
        (Term::CollectVec | Term::Collect, Ok(Out::Seq(g))) => {
            if *g != out {
                v.fail = Some(Verdict::fail(format!("sequential collect differs: {}", first_diff(g, &out)), sig("value")));
            }
        }
        (Term::CollectInto { .. }, Ok(Out::Seq(g))) => {
            let e = collect_into_expected(case, &r.term, &out);
            if *g != e {
                v.fail = Some(Verdict::fail(format!("sequential collect_into differs: {}", first_diff(g, &e)), sig("value")));
            }
        }
        (Term::CollectX, Ok(Out::Seq(g))) => {
            if sorted(g) != sorted(&out) {
                v.fail = Some(Verdict::fail("sequential collect_x is not a permutation", sig("value")));
            }
        }
        (Term::Count, Ok(Out::Count(n))) => {
            if *n != out.len() {
                v.fail = Some(bad(n, &out.len()));
            }
        }
        (Term::ForEach, Ok(Out::Unit)) => {
            let got: Vec<u64> = r.log.iter().filter(|e| e.kind == Kind::ForEach).map(|e| e.uid).collect();
            let exp: Vec<u64> = out.iter().map(|x| x.uid).collect();
            if got != exp {
                v.fail = Some(Verdict::fail("for_each did not visit the elements in sequential order", sig("for_each-order")));
            }
        }
        (Term::Reduce { op: RedOp::NonComm }, Ok(Out::Opt(g))) => {
            let e = out.iter().copied().reduce(|a, b| combine_v(RedOp::NonComm, a, b));
            v.label("non-commutative operator");
            if *g != e {
                v.fail = Some(Verdict::fail(format!("reduce with a non-commutative operator: {:?}, left fold {:?}", g, e), sig("fold-shape")));
            }
        }
        (Term::Fold { op: RedOp::NonComm }, Ok(Out::Val(g))) => {
            let e = out.iter().copied().fold(model::fold_identity(RedOp::NonComm), |a, b| combine_v(RedOp::NonComm, a, b));
            v.label("non-commutative operator");
            if *g != e {
                v.fail = Some(Verdict::fail(format!("fold with a non-commutative operator: {:?}, left fold {:?}", g, e), sig("fold-shape")));
            }
        }
        (t, Ok(_)) if t.is_reduce_family() => {
            v.fail = check_reduce_value(case, &r, &m);
        }
        (Term::Find { .. } | Term::First | Term::Any { .. } | Term::All { .. } | Term::FindIdx { .. } | Term::FirstIdx, Ok(g)) => {
            let (mask, neg) = match &r.term {
                Term::Find { mask } | Term::Any { mask } | Term::FindIdx { mask } => (Some(*mask), false),
                Term::All { mask } => (Some(*mask), true),
                _ => (None, false),
            };
            let lazy = lazy_find(case, src_for(case, &r), mask, neg);
            let e = match &r.term {
                Term::Find { .. } | Term::First => Out::Opt(lazy.found.map(|x| x.0)),
                Term::Any { .. } => Out::Bool(lazy.found.is_some()),
                Term::All { .. } => Out::Bool(lazy.found.is_none()),
                _ => Out::OptIdx(lazy.found.map(|x| (x.1, x.0))),
            };
            if *g != e {
                v.fail = Some(bad(g, &e));
            }
            // predicate calls in source order
            let preds: Vec<MEv> = lazy.log.iter().filter(|x| x.pred).copied().collect();
            let gp: Vec<u64> = r.log.iter().filter(|x| x.kind == Kind::Pred).map(|x| x.uid).collect();
            if eager.is_empty() && gp != preds.iter().map(|x| x.uid).collect::<Vec<_>>() {
                v.fail = Some(Verdict::fail("predicate calls differ from the lazy sequential evaluation", sig("pred-order")));
            }
        }
        (t, o) => v.fail = Some(Verdict::fail(format!("unexpected outcome {:?} for {:?}", o, t), sig("outcome"))),
    }
    if let Some((_, cs)) = Some(case.final_params()) {
        v.label(format!("chunk:{}", match cs {
            CsModel::Auto => "Auto",
            CsModel::Exact(_) => "Exact",
            CsModel::Min(_) => "Min",
        }));
    }
    v.nontrivial = !case.chain.is_empty() && m.out.len() >= 3;
    v
}

fn dense_c09(thorough: bool, _seed: u64) -> Vec<Case> {
    // every seq_* kernel x every collect target: all shapes x terminals, on a Vec and an unknown-length iterator
    let mut terms = vec![
        Term::CollectVec,
        Term::Collect,
        Term::CollectX,
        Term::Count,
        Term::ForEach,
        Term::Reduce { op: RedOp::NonComm },
        Term::Fold { op: RedOp::NonComm },
        Term::Sum,
        Term::MinByKey,
        Term::MaxBy,
        Term::Find { mask: 0x2040 },
        Term::First,
        Term::Any { mask: 0x0100 },
        Term::All { mask: 0xfeff },
    ];
    for target in [Target::Vec, Target::SplitDoubling, Target::SplitLinear, Target::Fixed] {
        terms.push(Term::CollectInto {
            target,
            prefix: vec![3, 9],
            spare: 4,
        });
    }
    let mut out = vec![];
    let mut n = 0u32;
    for kinds in all_shapes(3) {
        for source in [Source::VecOwned, Source::Iter { hint: Hint::Zero }] {
            for term in &terms {
                n += 1;
                if !term_supported(source, kinds.len(), term) {
                    continue;
                }
                if !thorough && kinds.len() == 3 && n % 3 != 0 {
                    continue;
                }
                out.push(Case {
                    source,
                    input: det_input(20 + (n as usize % 9), 0xC09 ^ n as u64),
                    chain: chain_of(&kinds, n),
                    params: vec![
                        ParamOp {
                            pos: 0,
                            kind: ParamKind::Threads(if n % 2 == 0 { Nt::Max(1) } else { Nt::Usize(1) }),
                        },
                        p_chunk(0, [Cs::Auto, Cs::Exact(1), Cs::Exact(4), Cs::Min(3), Cs::Exact(1000)][n as usize % 5]),
                    ],
                    term: term.clone(),
                    mode: free_mode(0),
                    faults: vec![],
                });
            }
        }
    }
    out
}

pub fn c09() -> PropDef {
    PropDef {
        id: "C09",
        rule: "cases: num_threads(1) set on the source, any chunk_size; proptest over (source, input, chain, terminal incl. reduce/fold with the non-commutative non-associative operator a*31+b) + all 85 chain shapes x 2 sources x 18 terminals (every seq_* kernel x collect target); oracle: per-stage ordered argument sequence == std model's, every terminal except collect_x == std value exactly (by-key ties: membership among extremal elements, as C03 states), all calls on the calling thread, no run started; non-trivial: chain non-empty and >=3 surviving elements; distinct by case hash",
        free: mk_free(|c| {
            c.threads = ThreadsCfg::Seq;
            c.pos = ParamPos::OnSource;
            c.max_len = 300;
            c.terms = vec![
                TermClass::Collect,
                TermClass::CollectIntoPrefixed,
                TermClass::CollectX,
                TermClass::Count,
                TermClass::ForEach,
                TermClass::ReduceFamily,
                TermClass::ReduceNonComm,
                TermClass::ReduceNonComm,
                TermClass::ShortCircuit,
                TermClass::WithIndex,
            ];
        }),
        sched: None,
        quick: (12000, 0),
        thorough: (90000, 0),
        dense: dense_c09,
        check: check_c09,
        adjust: no_adjust,
        assumptions: COMMON_ASSUMPTIONS,
        tiny: no_tiny,
        long: None,
        growth: None,
    }
}
