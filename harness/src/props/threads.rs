//! C08 NumThreads::Max(n) bounds concurrency; C11 ChunkSize::Exact(c).

use super::*;
use crate::run::term_supported;
use std::collections::{BTreeMap, BTreeSet};

pub const SIG_C08_REDUCE_ON_CALLER: &str = "reduce-family closure also runs on the calling thread (post-join merge): n workers + caller = n+1 distinct threads";

fn check_c08(case: &Case) -> Verdict {
    let (r, m) = match run_basic(case) {
        Ok(x) => x,
        Err(v) => return v,
    };
    let mut v = Verdict::default();
    common_labels(case, &r, &mut v);
    let n = match case.final_params().0 {
        NtModel::Max(n) => n,
        NtModel::Auto => {
            v.skipped = Some("harness: C08 case without Max(n)".into());
            return v;
        }
    };
    v.label(format!("n:{}", if n > 16 { ">16".to_string() } else { n.to_string() }));
    if m.src.len() < n {
        v.label("len < n");
    }
    let sig = |what: &str| format!("{}|{}", what, r.term.name());
    let rs = runs(&r.log);
    if n == 1 {
        if let Some(e) = r.log.iter().find(|e| e.kind.is_closure() && e.tid != 0) {
            v.fail = Some(Verdict::fail(
                format!("Max(1): closure {:?} (stage {}) ran on thread {}, not on the calling thread", e.kind, e.stage, e.tid),
                sig("max1-off-caller"),
            ));
            return v;
        }
        if !rs.is_empty() || r.log.iter().any(|e| e.kind == Kind::WorkerBegin) {
            v.fail = Some(Verdict::fail("Max(1): a parallel run was started / a thread was spawned", sig("max1-spawned")));
            return v;
        }
        v.nontrivial = r.log.iter().filter(|e| e.kind.is_closure()).count() >= 2;
        return v;
    }
    // (b) per run: the threads that executed closures or pulled elements (workers that were spawned but never got any
    // work do not execute the computation's closures; they are only labelled)
    for run in &rs {
        let seg = &r.log[run.begin..run.end.min(r.log.len())];
        let active: BTreeSet<u16> = seg.iter().filter(|e| e.kind.is_closure() && e.tid != 0).map(|e| e.tid).collect();
        if active.len() > n {
            v.fail = Some(Verdict::fail(
                format!("Max({n}): {} worker threads executed closures in one run", active.len()),
                sig("too-many-workers"),
            ));
            return v;
        }
        if run.spawned > n {
            v.label("more than n workers spawned (not all of them executed closures)");
        }
    }
    // (a) closure level gauge (meaningful in free mode; trivially <= 1 under the scheduler)
    if r.max_in_closure as usize > n {
        v.fail = Some(Verdict::fail(
            format!("Max({n}): {} threads were inside user closures at the same time", r.max_in_closure),
            sig("too-many-concurrent"),
        ));
        return v;
    }
    // (c) distinct threads per closure
    let per: BTreeMap<(u8, u8), BTreeSet<u16>> = threads_per_closure(&r.log);
    for ((kind, stage), tids) in &per {
        if tids.len() <= n {
            continue;
        }
        let kind_is_reduce = *kind == Kind::Red as u8 || *kind == Kind::Key as u8 || *kind == Kind::Cmp as u8;
        let workers: BTreeSet<u16> = tids.iter().copied().filter(|t| *t != 0).collect();
        // the narrowly keyed known finding: only the calling thread is in excess, and it only merges after it has
        // spawned its last worker (i.e. while joining)
        let mut known = kind_is_reduce && r.term.is_reduce_family() && tids.contains(&0) && workers.len() <= n;
        if known {
            if let Some(run) = rs.last() {
                let done = r.log[run.begin..run.end.min(r.log.len())]
                    .iter()
                    .position(|e| e.kind == Kind::SpawnerDone)
                    .map(|i| i + run.begin);
                let first_caller_call = r.log.iter().position(|e| e.kind as u8 == *kind && e.tid == 0);
                known = matches!((done, first_caller_call), (Some(d), Some(c)) if c > d);
            } else {
                known = false;
            }
        }
        if known {
            v.fail = Some(Verdict::fail(
                format!("Max({n}): reduce-family closure ran on {} distinct threads ({} workers + the calling thread)", tids.len(), workers.len()),
                SIG_C08_REDUCE_ON_CALLER,
            ));
            // keep looking: any other excess is a different (unlisted) violation and wins
            continue;
        }
        v.fail = Some(Verdict::fail(
            format!("Max({n}): closure kind {} stage {} was run by {} distinct threads", kind, stage, tids.len()),
            sig("too-many-threads-per-closure"),
        ));
        return v;
    }
    let busy = busy_workers(&r.log, 0);
    if busy >= n.min(16) {
        v.label("all n workers busy");
    }
    v.nontrivial = busy >= 2;
    v
}

fn dense_c08(thorough: bool, _seed: u64) -> Vec<Case> {
    let terms = [
        Term::CollectVec,
        Term::Count,
        Term::Reduce { op: RedOp::Add },
        Term::Find { mask: 0 },
        Term::CollectX,
        Term::ForEach,
    ];
    let mut out = vec![];
    let mut k = 0u32;
    for n in 1..=16usize {
        for term in &terms {
            for (ci, kinds) in [
                vec![StageKind::Map],
                vec![StageKind::Filter, StageKind::FlatMap],
                vec![StageKind::Map, StageKind::Filter],
                vec![StageKind::FlatMap, StageKind::Filter, StageKind::Map],
            ]
            .iter()
            .enumerate()
            {
                k += 1;
                if !thorough && (k + n as u32) % 2 == 0 {
                    continue;
                }
                let source = if k % 2 == 0 { Source::VecOwned } else { Source::Iter { hint: Hint::Zero } };
                if !term_supported(source, kinds.len(), term) {
                    continue;
                }
                let len = [n.saturating_sub(1).max(1), n, 3 * n + 5, 200][(k as usize + ci) % 4];
                out.push(Case {
                    source,
                    input: det_input(len, 0xC08 ^ k as u64),
                    chain: chain_of(kinds, k),
                    params: vec![p_threads(0, n), p_chunk(0, [Cs::Exact(1), Cs::Exact(2), Cs::Min(1), Cs::Auto][k as usize % 4])],
                    term: term.clone(),
                    mode: Mode::Free {
                        spin_seed: k,
                        spin_max: 1500,
                        src_spin: 0,
                    },
                    faults: vec![],
                });
            }
        }
    }
    out
}

pub fn c08() -> PropDef {
    PropDef {
        id: "C08",
        rule: "cases: num_threads(Max(n)) set on the source, n in 1..=16 and a few above; proptest over (source, input shorter/equal/longer than n, chain incl. those with an eagerly materialised stage, chunk, any terminal, mode) + n = 1..=16 x 6 terminals x 4 chains with spinning closures; oracle: workers spawned per run <= n, live workers <= n (hooks), threads simultaneously inside closures <= n (gauge), distinct threads per closure <= n, n = 1: every closure on the calling thread and no run / worker at all; non-trivial: n >= 2 and >= 2 workers ran closures (n = 1: >= 2 closure calls); distinct by case hash",
        free: mk_free(|c| {
            c.threads = ThreadsCfg::MaxN(16);
            c.pos = ParamPos::OnSource;
            c.max_len = 400;
            c.terms = vec![
                TermClass::Collect,
                TermClass::CollectX,
                TermClass::Count,
                TermClass::ForEach,
                TermClass::ReduceFamily,
                TermClass::ShortCircuit,
            ];
        }),
        sched: mk_sched(|c| {
            c.threads = ThreadsCfg::MaxN(12);
            c.pos = ParamPos::OnSource;
            c.chunk = ChunkCfg::Small(3);
            c.terms = vec![
                TermClass::Collect,
                TermClass::CollectX,
                TermClass::Count,
                TermClass::ForEach,
                TermClass::ReduceFamily,
                TermClass::ShortCircuit,
            ];
        }),
        quick: (6000, 3000),
        thorough: (45000, 12000),
        dense: dense_c08,
        check: check_c08,
        adjust: no_adjust,
        assumptions: COMMON_ASSUMPTIONS,
        tiny: no_tiny,
        long: None,
        growth: None,
    }
}

// ------------------------------------------------------------------------------------------------ C11

fn adjust_c11(mut case: Case) -> Case {
    // the burst analysis reads per-thread event order only, but keep the schedules one-thread-at-a-time here
    if let Mode::Sched(s) = &mut case.mode {
        s.src_yield = 0;
        s.drop_yield = 0;
    }
    // searches must not exit early (an early exit legitimately ends pulling): look for something that never matches
    match &mut case.term {
        Term::Find { mask } | Term::Any { mask } => *mask = 0,
        Term::All { mask } => *mask = 0xffff,
        Term::First => case.term = Term::Count,
        _ => {}
    }
    case
}

fn check_c11(case: &Case) -> Verdict {
    let (r, m) = match run_basic(case) {
        Ok(x) => x,
        Err(v) => return v,
    };
    let mut v = Verdict::default();
    common_labels(case, &r, &mut v);
    let c = match case.final_params().1 {
        CsModel::Exact(c) => c,
        _ => {
            v.skipped = Some("harness: C11 case without Exact(c)".into());
            return v;
        }
    };
    if case.is_sequential() {
        v.label("sequential (no pulls)");
        return v;
    }
    let sig = |what: &str| generic_sig(case, what);
    let rs = runs(&r.log);
    // (2) every worker of every run is handed exactly c
    for run in &rs {
        // a chunk never exceeds a known input length: Exact(c) with c > len is one pull of everything
        let c_req = c;
        let c = match run.input_len {
            Some(len) => c.min(len.max(1)),
            None => c,
        };
        // a size at or beyond a known input length means "one pull takes everything" whatever number represents it
        let whole = |x: usize| matches!(run.input_len, Some(len) if x >= len.max(1) && c_req >= len.max(1));
        if !run.exact || (run.chunk != c && run.chunk != c_req && !whole(run.chunk)) {
            v.fail = Some(Verdict::fail(
                format!("Exact({c}) resolved to {}({})", if run.exact { "Exact" } else { "Min" }, run.chunk),
                sig("resolved"),
            ));
            return v;
        }
        for (tid, wc) in &run.workers {
            if *wc != c && *wc != c_req && !whole(*wc) {
                v.fail = Some(Verdict::fail(
                    format!("Exact({c}): worker {tid} was started with chunk size {wc}"),
                    sig("worker-chunk"),
                ));
                return v;
            }
        }
    }
    let Some(run0) = rs.first() else {
        return v;
    };
    let seg = &r.log[run0.begin..run0.end.min(r.log.len())];
    // (1) bursts of next() calls on the instrumented iterator
    if case.source.is_instrumented_iter() && !case.chain.is_empty() {
        let last_uid = m.src.last().map(|x| x.uid);
        let mut per_tid: BTreeMap<u16, Vec<&Ev>> = BTreeMap::new();
        for e in seg {
            if matches!(e.kind, Kind::SrcSome | Kind::SrcNone) || e.kind.is_closure() {
                per_tid.entry(e.tid).or_default().push(e);
            }
        }
        for (tid, evs) in &per_tid {
            let mut somes = 0usize;
            let mut fin = false;
            let mut in_burst = false;
            let flush = |somes: usize, fin: bool| -> Option<String> {
                if fin {
                    (somes > c).then(|| format!("final pull of thread {tid} took {somes} > {c} elements"))
                } else {
                    (somes != c).then(|| format!("a pull of thread {tid} took {somes} elements, Exact({c}) demands exactly {c}"))
                }
            };
            for e in evs {
                match e.kind {
                    Kind::SrcSome => {
                        in_burst = true;
                        somes += 1;
                        if Some(e.uid) == last_uid {
                            fin = true;
                        }
                    }
                    Kind::SrcNone => {
                        in_burst = true;
                        fin = true;
                    }
                    _ => {
                        if in_burst {
                            if let Some(msg) = flush(somes, fin) {
                                v.fail = Some(Verdict::fail(msg, sig("burst")));
                                return v;
                            }
                        }
                        in_burst = false;
                        somes = 0;
                        fin = false;
                    }
                }
            }
            if in_burst {
                if let Some(msg) = flush(somes, fin) {
                    v.fail = Some(Verdict::fail(msg, sig("burst")));
                    return v;
                }
            }
        }
        v.label("bursts checked");
    }
    // (3) aligned blocks are processed by one thread (necessary condition)
    if !case.chain.is_empty() {
        let pos: BTreeMap<u64, usize> = m.src.iter().enumerate().map(|(i, x)| (x.uid, i)).collect();
        let mut owner: BTreeMap<usize, u16> = BTreeMap::new();
        for e in seg.iter().filter(|e| e.kind == Kind::Stage && e.stage == 0) {
            if let Some(p) = pos.get(&e.uid) {
                let b = p / c;
                if let Some(prev) = owner.insert(b, e.tid) {
                    if prev != e.tid {
                        v.fail = Some(Verdict::fail(
                            format!("Exact({c}): block {b} (positions {}..{}) was processed by threads {prev} and {}", b * c, (b + 1) * c, e.tid),
                            sig("block-split"),
                        ));
                        return v;
                    }
                }
            }
        }
    }
    // does the case distinguish Exact from an adaptively grown size? a worker was started after a lag period
    let late = rs.iter().any(|run| {
        let first_chunk_check = run.checks.iter().find(|x| x.2).map(|x| x.0);
        match first_chunk_check {
            Some(i) => r.log[i..run.end.min(r.log.len())].iter().any(|e| e.kind == Kind::WorkerBegin),
            None => false,
        }
    });
    if late {
        v.label("a worker was spawned after a lag period");
    }
    // growth would have been possible: progress per thread at that point was at least 2 chunks
    v.nontrivial = late && busy_workers(&r.log, 0) >= 2;
    v
}

fn dense_c11(thorough: bool, _seed: u64) -> Vec<Case> {
    let terms = [
        Term::CollectVec,
        Term::CollectX,
        Term::Count,
        Term::Reduce { op: RedOp::Xor },
        Term::Find { mask: 0 },
        Term::ForEach,
    ];
    let chains: [&[StageKind]; 4] = [
        &[StageKind::Map],
        &[StageKind::Map, StageKind::Filter],
        &[StageKind::FilterMap],
        &[StageKind::FlatMap],
    ];
    let mut out = vec![];
    let mut k = 0u32;
    for c in 1..=9usize {
        for t in [6usize, 8, 12, 16] {
            for (ti, term) in terms.iter().enumerate() {
                k += 1;
                if !thorough && (k % 3 != 0) {
                    continue;
                }
                let kinds = chains[(k as usize + ti) % 4];
                let source = [Source::Iter { hint: Hint::Exact }, Source::VecOwned, Source::Iter { hint: Hint::Zero }][k as usize % 3];
                if !term_supported(source, kinds.len(), term) {
                    continue;
                }
                out.push(Case {
                    source,
                    input: det_input(20_000 + 7 * k as usize % 13, 0xC11 ^ k as u64),
                    chain: chain_of(kinds, k),
                    params: vec![p_threads(0, t), p_chunk(0, Cs::Exact(c))],
                    term: term.clone(),
                    mode: Mode::Free {
                        spin_seed: k,
                        spin_max: 0,
                        src_spin: 0,
                    },
                    faults: vec![],
                });
            }
        }
    }
    out
}

pub fn c11() -> PropDef {
    PropDef {
        id: "C11",
        rule: "cases: chunk_size(Exact(c)) set on the source, c in 1..=9 dense and sampled to 64; proptest over (source with emphasis on instrumented exact-size by-value iterators, input length incl. < c and non-multiples, 2..=16 threads, every kernel family, mode) + c x threads {6,8,12,16} x 6 terminals on 20k-element inputs; oracle: (1) per-thread bursts of next() calls between that thread's closure calls contain exactly c elements unless the burst reaches the end of the source, (2) every worker of every run is handed chunk size c and the run resolves Exact(c), (3) each aligned block [k*c,(k+1)*c) is processed by one thread; non-trivial: a worker was spawned after a lag period (where an adaptive size would differ from c) and >=2 workers were busy; distinct by case hash",
        free: mk_free(|c| {
            c.chunk = ChunkCfg::ExactOnly(64);
            c.threads = ThreadsCfg::MaxN(16);
            c.pos = ParamPos::OnSource;
            c.min_chain = 1;
            c.max_len = 30_000;
            c.src = SrcClass::Deep;
            c.terms = vec![
                TermClass::Collect,
                TermClass::CollectX,
                TermClass::Count,
                TermClass::ForEach,
                TermClass::ReduceFamily,
                TermClass::ShortCircuit,
            ];
        }),
        sched: mk_sched(|c| {
            c.chunk = ChunkCfg::ExactOnly(4);
            c.threads = ThreadsCfg::ParMax(12);
            c.pos = ParamPos::OnSource;
            c.min_chain = 1;
            c.max_chain = 2;
            c.max_len = 160;
            c.src = SrcClass::Deep;
            c.terms = vec![TermClass::Collect, TermClass::CollectX, TermClass::Count, TermClass::ReduceFamily, TermClass::ShortCircuit];
        }),
        quick: (800, 1500),
        thorough: (6000, 9000),
        dense: dense_c11,
        check: check_c11,
        adjust: adjust_c11,
        assumptions: COMMON_ASSUMPTIONS,
        tiny: no_tiny,
        long: None,
        growth: None,
    }
}
