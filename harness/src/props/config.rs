//! C12 parameters propagate through every transformation; C15 parameters never change a result.

use super::find as pfind;
use super::results::check_reduce_value;
use super::*;
use crate::model::{lazy_find, shapes};
use crate::run::{max_depth, term_supported};

// ------------------------------------------------------------------------------------------------ C12

fn check_c12(case: &Case) -> Verdict {
    let r = run_case(case);
    let mut v = Verdict::default();
    if let Some(why) = unusable(&r) {
        v.skipped = Some(why);
        return v;
    }
    if let Some(f) = unexpected_panic(case, &r) {
        v.fail = Some(f);
        return v;
    }
    v.label(format!("src:{}", source_name(case.source)));
    v.label(format!("shape:{}", if case.chain.is_empty() { "-".to_string() } else { case.shape() }));
    let ops = case.ordered_params();
    let mut nt = NtModel::Auto;
    let mut cs = CsModel::Auto;
    let mut op_followed_by_transformation = false;
    let mut seen_op = false;
    for s in &r.snaps {
        match s.step {
            "src" => {}
            "threads" | "chunk" => {
                seen_op = true;
                match ops[s.idx].kind {
                    ParamKind::Threads(n) => nt = nt_model(n),
                    ParamKind::Chunk(c) => cs = cs_model(c),
                }
            }
            _ => {
                if seen_op {
                    op_followed_by_transformation = true;
                }
            }
        }
        if s.params != (nt, cs) {
            v.fail = Some(Verdict::fail(
                format!("after step `{}` #{} (type {}): params() = {:?}, expected {:?}", s.step, s.idx, s.ty, s.params, (nt, cs)),
                format!("params|{}|{}", s.ty, s.step),
            ));
            return v;
        }
        if s.is_sequential != (nt == NtModel::Max(1)) {
            v.fail = Some(Verdict::fail(
                format!("after step `{}`: is_sequential() = {}, num_threads = {:?}", s.step, s.is_sequential, nt),
                format!("is_sequential|{}|{}", s.ty, s.step),
            ));
            return v;
        }
    }
    let expected_snaps = 1 + ops.len() + case.chain.len();
    if r.snaps.len() != expected_snaps {
        v.fail = Some(Verdict::fail(
            format!("harness: {} snapshots for {} steps", r.snaps.len(), expected_snaps),
            "harness",
        ));
        return v;
    }
    for s in &r.snaps {
        if s.step != "src" && s.step != "threads" && s.step != "chunk" {
            v.label(format!("transition:{}", s.ty));
        }
    }
    v.nontrivial = op_followed_by_transformation;
    v
}

fn dense_c12(thorough: bool, _seed: u64) -> Vec<Case> {
    // every chain of length <= 3 x parameter operations at every position x special values
    let nts = [
        Nt::Auto,
        Nt::Usize(0),
        Nt::Usize(1),
        Nt::Max(1),
        Nt::Usize(2),
        Nt::Max(7),
        Nt::Usize(64),
        Nt::Usize(usize::MAX),
        Nt::Max(usize::MAX),
    ];
    let css = [
        Cs::Auto,
        Cs::Usize(0),
        Cs::Usize(1),
        Cs::Exact(2),
        Cs::Min(1),
        Cs::Min(7),
        Cs::Usize(64),
        Cs::Exact(usize::MAX),
        Cs::Min(usize::MAX),
        Cs::Usize(usize::MAX),
    ];
    let sources_all = [
        Source::VecOwned,
        Source::Iter { hint: Hint::Exact },
        Source::Iter { hint: Hint::Zero },
        Source::VecRef,
        Source::SliceRef { skip: 1 },
        Source::SliceIntoPar,
        Source::ArrayRef,
        Source::Range { start: 3 },
        Source::RangeIter { start: 0 },
        Source::ClonedSlice,
        Source::ParCloned,
        Source::NestedCloned,
        Source::NestedCopied { start: 2 },
        Source::Coll { kind: Coll::VecDeque, by_ref: false },
        Source::Coll { kind: Coll::BTreeSet, by_ref: true },
        Source::Coll { kind: Coll::HashSet, by_ref: false },
        Source::Coll { kind: Coll::LinkedList, by_ref: true },
        Source::Coll { kind: Coll::BinaryHeap, by_ref: false },
        Source::Coll { kind: Coll::BTreeMap, by_ref: false },
        Source::Coll { kind: Coll::HashMap, by_ref: true },
    ];
    let mut out = vec![];
    let mut k = 0usize;
    for source in sources_all {
        for kinds in all_shapes(max_depth(source)) {
            let chain = chain_of(&kinds, k as u32);
            let (_, _, eager) = shapes(&chain);
            let n = kinds.len();
            // one case per position pair, cycling through the value tables
            for tp in 0..=n {
                for cp in 0..=n {
                    k += 1;
                    if !thorough && !matches!(source, Source::VecOwned) && k % 4 != 0 {
                        continue;
                    }
                    let mut nt = nts[k % nts.len()];
                    let mut cs = css[(k / 3) % css.len()];
                    // extreme values only where nothing is executed at construction (no eagerly materialised stage,
                    // and only on the Vec source): they are C15's business
                    let huge = |x: usize| x > 64;
                    let extreme_ok = eager.is_empty() && matches!(source, Source::VecOwned);
                    if !extreme_ok {
                        if let Nt::Usize(x) | Nt::Max(x) = nt {
                            if huge(x) {
                                nt = Nt::Max(3);
                            }
                        }
                        if let Cs::Usize(x) | Cs::Exact(x) | Cs::Min(x) = cs {
                            if huge(x) {
                                cs = Cs::Min(5);
                            }
                        }
                    }
                    let mut params = vec![
                        ParamOp {
                            pos: tp as u8,
                            kind: ParamKind::Threads(nt),
                        },
                        ParamOp {
                            pos: cp as u8,
                            kind: ParamKind::Chunk(cs),
                        },
                    ];
                    if k % 3 == 0 {
                        // a third operation overriding one of the two later in the chain
                        params.push(ParamOp {
                            pos: n as u8,
                            kind: if k % 2 == 0 {
                                ParamKind::Threads(Nt::Usize(k % 5))
                            } else {
                                ParamKind::Chunk(Cs::Usize(k % 4))
                            },
                        });
                    }
                    out.push(Case {
                        source,
                        input: det_input(if matches!(source, Source::ArrayRef) { 6 } else { 9 }, k as u64),
                        chain: chain.clone(),
                        params,
                        term: Term::ParamsOnly,
                        mode: free_mode(0),
                        faults: vec![],
                    });
                }
            }
        }
    }
    out
}

pub fn c12() -> PropDef {
    PropDef {
        id: "C12",
        rule: "cases: every chain shape up to the depth instantiated per source (85 on Vec / iterator sources, 21 on slices and ranges, 5 on the others: all 32 (type, transformation) pairs on the deep sources) x a num_threads and a chunk_size operation at every pair of positions (plus an overriding third one) x values {Auto, 0, 1, 2, 7, 64, usize::MAX, explicit Max/Exact/Min} + proptest over random chains/positions/values; no terminal runs; oracle: params() after every single step == last write per field (defaults Auto/Auto, 0 -> Auto, n>0 -> Max(n)/Exact(n)) and is_sequential() <=> Max(1); non-trivial: at least one parameter operation followed by at least one transformation; distinct by case hash; exhaustive: the enumerated part is complete for its stated finite domain",
        free: mk_free(|c| {
            c.terms = vec![TermClass::ParamsOnly];
            c.max_len = 12;
        }),
        sched: None,
        quick: (6000, 0),
        thorough: (45000, 0),
        dense: dense_c12,
        check: check_c12,
        adjust: no_adjust,
        assumptions: COMMON_ASSUMPTIONS,
        tiny: no_tiny,
        long: None,
        growth: None,
    }
}

// ------------------------------------------------------------------------------------------------ C15

pub const SIG_C15_MIN_OVERFLOW: &str = "ChunkSize::Min(c) with c x threads >= 2^64: arithmetic overflow panic in min_chunk_size (builds with overflow checks)";
pub const SIG_C15_HUGE_CHUNK_WRAP: &str = "ChunkSize::Exact/Min(c) with c >= 2^62 on a known-length non-iterator source: the pull counter wraps";

/// value oracle for any terminal (shared with C13/C14 sanity): None = agrees with the std model
pub fn value_fail(case: &Case, r: &RunResult, m: &Model) -> Option<Fail> {
    let out = m.out_v();
    let sig = |w: &str| generic_sig(case, w);
    match (&r.term, &r.out) {
        (_, Err(_)) => unexpected_panic(case, r),
        (Term::CollectVec | Term::Collect, Ok(Out::Seq(g))) => (*g != out).then(|| Verdict::fail(format!("collect: {}", first_diff(g, &out)), sig("order"))),
        (Term::CollectInto { .. }, Ok(Out::Seq(g))) => {
            let e = collect_into_expected(case, &r.term, &out);
            (*g != e).then(|| Verdict::fail(format!("collect_into: {}", first_diff(g, &e)), sig("collect_into")))
        }
        (Term::CollectX, Ok(Out::Seq(g))) => (sorted(g) != sorted(&out)).then(|| Verdict::fail("collect_x is not a permutation of the sequential result", sig("multiset"))),
        (Term::Count, Ok(Out::Count(n))) => (*n != out.len()).then(|| Verdict::fail(format!("count = {n}, sequentially {}", out.len()), sig("count"))),
        (Term::ForEach, Ok(Out::Unit)) => {
            let mut got: Vec<u64> = r.log.iter().filter(|e| e.kind == Kind::ForEach).map(|e| e.uid).collect();
            let mut exp: Vec<u64> = out.iter().map(|x| x.uid).collect();
            got.sort();
            exp.sort();
            (got != exp).then(|| Verdict::fail("for_each arguments differ from the sequential multiset", sig("for_each")))
        }
        (t, Ok(_)) if t.is_reduce_family() => check_reduce_value(case, r, m),
        (Term::Find { .. } | Term::First | Term::Any { .. } | Term::All { .. } | Term::FindIdx { .. } | Term::FirstIdx, Ok(g)) => {
            let (mask, neg) = match &r.term {
                Term::Find { mask } | Term::Any { mask } | Term::FindIdx { mask } => (Some(*mask), false),
                Term::All { mask } => (Some(*mask), true),
                _ => (None, false),
            };
            let lazy = lazy_find(case, m.src.clone(), mask, neg);
            let e = match &r.term {
                Term::Find { .. } | Term::First => Out::Opt(lazy.found.map(|x| x.0)),
                Term::Any { .. } => Out::Bool(lazy.found.is_some()),
                Term::All { .. } => Out::Bool(lazy.found.is_none()),
                _ => Out::OptIdx(lazy.found.map(|x| (x.1, x.0))),
            };
            (*g != e).then(|| Verdict::fail(format!("{} = {:?}, sequentially {:?}", r.term.name(), g, e), sig("find")))
        }
        (Term::ParamsOnly, Ok(Out::Unit)) => None,
        (t, o) => Some(Verdict::fail(format!("unexpected outcome {:?} for {:?}", o, t), sig("outcome"))),
    }
}

fn sequential_twin(case: &Case) -> Case {
    let mut c = case.clone();
    c.params.retain(|p| !matches!(p.kind, ParamKind::Threads(_)));
    c.params.push(ParamOp {
        pos: 0,
        kind: ParamKind::Threads(Nt::Max(1)),
    });
    c
}

fn config_sig(case: &Case, r: &RunResult) -> Option<String> {
    // classify the extreme configurations behind the recorded findings
    let (nt, cs) = case.final_params();
    let threads = match nt {
        NtModel::Auto => 16usize,
        NtModel::Max(n) => n.min(16),
    };
    let panicked_overflow = matches!(&r.out, Err(Panicked::Other(m)) if m.contains("overflow"));
    match cs {
        CsModel::Min(c) if c.checked_mul(threads.max(1)).is_none() && panicked_overflow => Some(SIG_C15_MIN_OVERFLOW.to_string()),
        CsModel::Exact(c) | CsModel::Min(c) if c >= 1 << 62 && case.source.known_len() && !case.source.is_iter_backed() => {
            Some(SIG_C15_HUGE_CHUNK_WRAP.to_string())
        }
        _ => None,
    }
}

fn check_c15(case: &Case) -> Verdict {
    let mut v = Verdict::default();
    let r = run_case(case);
    if let Some(why) = unusable(&r) {
        v.skipped = Some(why);
        return v;
    }
    let m = model_for(case, &r);
    v.label(format!("src:{}", source_name(case.source)));
    v.label(format!("term:{}", r.term.name()));
    let (nt, cs) = case.final_params();
    let len = m.src.len();
    let threads = match nt {
        NtModel::Auto => 16usize,
        NtModel::Max(n) => n,
    };
    v.label(match cs {
        CsModel::Auto => "chunk:Auto",
        CsModel::Exact(_) => "chunk:Exact",
        CsModel::Min(_) => "chunk:Min",
    });
    if len < threads {
        v.label("len < threads");
    }
    if let CsModel::Exact(c) | CsModel::Min(c) = cs {
        if len < c {
            v.label("len < chunk");
        }
        if c > (1 << 20) {
            v.label("chunk > 2^20");
        }
    }
    if let Some(f) = value_fail(case, &r, &m) {
        let sig = config_sig(case, &r).unwrap_or(f.sig.clone());
        v.fail = Some(Fail { msg: f.msg, sig });
        return v;
    }
    // the same computation under num_threads(1)
    let twin = sequential_twin(case);
    let r1 = run_case(&twin);
    v.extra_runs += 1;
    // std hash collections iterate in an order that belongs to the instance: the twin has its own model
    let m1 = model_for(&twin, &r1);
    if let Some(f) = value_fail(&twin, &r1, &m1) {
        v.fail = Some(Verdict::fail(format!("with num_threads(1): {}", f.msg), f.sig));
        return v;
    }
    let instance_ordered = matches!(case.source, Source::Coll { kind: Coll::HashSet | Coll::HashMap, .. });
    let deterministic = !instance_ordered && !matches!(r.term, Term::CollectX | Term::MinBy | Term::MaxBy | Term::MinByKey | Term::MaxByKey);
    if deterministic && r.out.as_ref().ok() != r1.out.as_ref().ok() {
        v.fail = Some(Verdict::fail(
            format!("result under {:?}/{:?} differs from the result under num_threads(1)", nt, cs),
            generic_sig(case, "differs-from-seq"),
        ));
        return v;
    }
    for run in runs(&r.log) {
        if !run.exact && run.workers.iter().any(|w| w.1 != run.chunk) {
            v.label("Min growth taken");
            break;
        }
    }
    v.nontrivial = !case.is_sequential() && len >= 2;
    v
}

pub fn c15_pairs(all: bool) -> Vec<(Vec<StageKind>, Term)> {
    use StageKind::*;
    let mut p = vec![
        (vec![Map], Term::CollectVec),
        (vec![Map, Filter], Term::CollectVec),
        (vec![FilterMap], Term::CollectVec),
        (vec![FlatMap], Term::CollectVec),
        (vec![Map, Filter], Term::CollectX),
        (vec![Filter], Term::Count),
        (vec![FilterMap], Term::Count),
        (vec![Map], Term::Reduce { op: RedOp::Add }),
        (vec![Filter], Term::Find { mask: 0x0900 }),
    ];
    if all {
        p.extend([
            (vec![FlatMap], Term::Count),
            (vec![FlatMap], Term::Reduce { op: RedOp::Xor }),
            (vec![FilterMap], Term::Reduce { op: RedOp::Add }),
            (vec![FilterMap], Term::Find { mask: 0x0030 }),
            (vec![FlatMap], Term::Find { mask: 0x4000 }),
            (vec![FilterMap], Term::CollectX),
            (vec![FlatMap], Term::CollectX),
            (vec![], Term::Count),
            (vec![], Term::Find { mask: 0x0002 }),
        ]);
    }
    p
}

pub fn c15_sources() -> Vec<Source> {
    vec![
        Source::VecOwned,
        Source::VecRef,
        Source::Range { start: 0 },
        Source::Iter { hint: Hint::Exact },
        Source::Iter { hint: Hint::Zero },
    ]
}

/// dense core: len 0..=12 x threads {Auto, 1..=6} x chunk {Auto, Exact 1..=13, Min 1..=13} x sources x pairs
pub fn c15_core(all_pairs: bool) -> Vec<Case> {
    let mut out = vec![];
    let mut k = 0u32;
    for (kinds, term) in c15_pairs(all_pairs) {
        for source in c15_sources() {
            if kinds.len() > max_depth(source) || !term_supported(source, kinds.len(), &term) {
                continue;
            }
            for len in 0..=12usize {
                for t in 0..=6usize {
                    for ci in 0..27usize {
                        k += 1;
                        let cs = match ci {
                            0 => Cs::Auto,
                            1..=13 => Cs::Exact(ci),
                            _ => Cs::Min(ci - 13),
                        };
                        out.push(Case {
                            source,
                            input: det_input(len, 0xC15 ^ (k as u64 % 97)),
                            chain: chain_of(&kinds, (k % 7) + 1),
                            params: vec![
                                ParamOp {
                                    pos: 0,
                                    kind: ParamKind::Threads(if t == 0 { Nt::Auto } else { Nt::Max(t) }),
                                },
                                p_chunk(0, cs),
                            ],
                            term: term.clone(),
                            mode: Mode::Free {
                                spin_seed: 0,
                                spin_max: 0,
                                src_spin: 0,
                            },
                            faults: vec![],
                        });
                    }
                }
            }
        }
    }
    out
}

/// extreme chunk sizes (known-length, non-iterator sources only: a by-value iterator source allocates `c` slots per pull)
fn c15_extremes() -> Vec<Case> {
    let mut out = vec![];
    let mut k = 0u32;
    let big = [1usize << 20, (1 << 20) + 1, 1 << 32, 1 << 62, (1 << 62) + 3, 1 << 63, usize::MAX / 2 + 7, usize::MAX];
    for (kinds, term) in c15_pairs(false) {
        for source in [Source::VecOwned, Source::VecRef, Source::Range { start: 0 }] {
            if kinds.len() > max_depth(source) || !term_supported(source, kinds.len(), &term) {
                continue;
            }
            for c in big {
                for exact in [true, false] {
                    for t in [0usize, 2, 5, 16] {
                        for len in [0usize, 1, 7, 64] {
                            k += 1;
                            out.push(Case {
                                source,
                                input: det_input(len, 0xE15 ^ k as u64),
                                chain: chain_of(&kinds, k % 5),
                                params: vec![
                                    ParamOp {
                                        pos: 0,
                                        kind: ParamKind::Threads(if t == 0 { Nt::Auto } else { Nt::Max(t) }),
                                    },
                                    p_chunk(0, if exact { Cs::Exact(c) } else { Cs::Min(c) }),
                                ],
                                term: term.clone(),
                                mode: free_mode(0),
                                faults: vec![],
                            });
                        }
                    }
                }
            }
        }
    }
    out
}

fn dense_c15(thorough: bool, seed: u64) -> Vec<Case> {
    let mut v = c15_extremes();
    let core = c15_core(thorough);
    if thorough {
        v.extend(core);
    } else {
        // quick: a pseudo-random 1/16 sample of the dense core, selected by the seed
        let off = (seed % 16) as usize;
        v.extend(core.into_iter().enumerate().filter(|(i, _)| (mix(0xC15, *i as u64) % 16) as usize == off).map(|(_, c)| c));
    }
    v
}

fn adjust_c15(case: Case) -> Case {
    // searches get planted inputs (a first match anywhere, also deep inside a chunk, with more matches after it)
    let mut case = if case.term.is_short_circuit() { pfind::plant(case) } else { case };
    // stated limit of the domain: chunk sizes above 2^20 are not generated for by-value iterator sources
    // (each pull allocates `c` slots up front: that region fails by memory exhaustion, not by a semantic difference)
    if case.source.is_iter_backed() {
        for p in case.params.iter_mut() {
            if let ParamKind::Chunk(Cs::Exact(c) | Cs::Min(c) | Cs::Usize(c)) = &mut p.kind {
                if *c > 1 << 20 {
                    *c = 1 << 20;
                }
            }
        }
    }
    case
}

pub fn c15() -> PropDef {
    PropDef {
        id: "C15",
        rule: "cases: dense core len 0..=12 x NumThreads {Auto, 1..=6} x ChunkSize {Auto, Exact 1..=13, Min 1..=13} x sources {Vec, slice, range, exact iterator, unknown-length iterator} x representative (chain, terminal) pairs covering the kernels (quick: a 1/16 slice selected by the seed; thorough: complete, all 18 pairs) + extreme chunk sizes {2^20, 2^32, 2^62, 2^63, usize::MAX, ...} on known-length non-iterator sources + proptest over lengths to 5000, threads to 100, chunk to 2^20; run under two build profiles (overflow checks on / off); oracle: no panic, result == std model and == the same computation under num_threads(1) (multiset for collect_x); non-trivial: parallel parameters and len >= 2; distinct by case hash",
        free: mk_free(|c| {
            c.max_len = 5000;
            c.chunk = ChunkCfg::Any { big: 1 << 20 };
            c.pos = ParamPos::OnSource;
            c.terms = vec![
                TermClass::Collect,
                TermClass::CollectX,
                TermClass::Count,
                TermClass::ForEach,
                TermClass::ReduceFamily,
                TermClass::ShortCircuit,
                TermClass::CollectIntoPrefixed,
            ];
        }),
        sched: mk_sched(|c| {
            // the adaptive part of the configuration (spawn decisions, Min growth) depends on how far the workers are when
            // the spawner looks: put that under generated schedules too, with enough threads for late spawns
            c.threads = ThreadsCfg::ParWide;
            c.chunk = ChunkCfg::Any { big: 24 };
            c.pos = ParamPos::OnSource;
            c.src = SrcClass::Deep;
            c.max_len = 64;
            c.terms = vec![
                TermClass::Collect,
                TermClass::CollectX,
                TermClass::Count,
                TermClass::ReduceFamily,
                TermClass::ShortCircuit,
            ];
        }),
        quick: (2000, 600),
        thorough: (30000, 6000),
        dense: dense_c15,
        check: check_c15,
        adjust: adjust_c15,
        assumptions: COMMON_ASSUMPTIONS,
        tiny: no_tiny,
        long: Some(({ let mut c = GenCfg::long_sched(); c.pos = ParamPos::OnSource; c.terms = vec![TermClass::Collect, TermClass::CollectX, TermClass::Count, TermClass::ReduceFamily, TermClass::ShortCircuit, TermClass::ShortCircuit, TermClass::ShortCircuit]; c }, 500, 4000)),
        growth: None,
    }
}

#[allow(unused)]
fn _use(_: fn(Case) -> Case) {}
#[allow(unused)]
fn _keep() {
    _use(pfind::plant);
}
