//! Property oracles. One module per group; every oracle asserts only what the listed property states.

use crate::analysis::*;
use crate::case::*;
use crate::chain::Out;
use crate::elem::*;
use crate::gen::*;
use crate::model::{self, Model};
use crate::obs::{Ev, Kind};
use crate::run::{run_case, Panicked, RunResult};

pub mod config;
pub mod drops;
pub mod find;
pub mod lazy;
pub mod results;
pub mod threads;
pub mod visits;

#[derive(Clone, Debug)]
pub struct Fail {
    pub msg: String,
    /// failure signature: what the known-findings file is keyed on
    pub sig: String,
}

#[derive(Clone, Debug, Default)]
pub struct Verdict {
    pub fail: Option<Fail>,
    pub nontrivial: bool,
    pub labels: Vec<String>,
    /// the case could not be evaluated (harness limit hit): counted, never a violation
    pub skipped: Option<String>,
    /// extra executions of the library this verdict needed (metamorphic re-runs ...)
    pub extra_runs: u32,
}

impl Verdict {
    pub fn fail(msg: impl Into<String>, sig: impl Into<String>) -> Fail {
        Fail {
            msg: msg.into(),
            sig: sig.into(),
        }
    }
    pub fn label(&mut self, l: impl Into<String>) {
        self.labels.push(l.into());
    }
}

pub fn model_for(case: &Case, r: &RunResult) -> Model {
    match &r.src_order {
        Some(o) => model::full_with_src(case, o.clone()),
        None => model::full(case),
    }
}
pub fn src_for(case: &Case, r: &RunResult) -> Vec<V> {
    match &r.src_order {
        Some(o) => o.clone(),
        None => model::source_values(case),
    }
}

pub fn source_name(s: Source) -> String {
    match s {
        Source::Iter { hint } => format!("Iter{:?}", hint),
        Source::Coll { kind, by_ref } => format!("{:?}{}", kind, if by_ref { "Ref" } else { "" }),
        Source::SliceRef { .. } => "SliceRef".into(),
        Source::Range { .. } => "Range".into(),
        Source::RangeIter { .. } => "RangeIter".into(),
        Source::Endless { .. } => "Endless".into(),
        Source::NestedCopied { .. } => "NestedCopied".into(),
        s => format!("{:?}", s),
    }
}

/// signature used when nothing more specific applies
pub fn generic_sig(case: &Case, what: &str) -> String {
    format!("{}|{}|{}|{}", what, case.shape(), source_name(case.source), case.term.name())
}

/// Harness limits: log or drop table overflow make a run unusable (never a violation).
pub fn unusable(r: &RunResult) -> Option<String> {
    if r.log_overflow {
        return Some("event log overflow".into());
    }
    if r.drops.overflow > 0 {
        return Some("drop table overflow".into());
    }
    None
}

/// A terminal that panicked although no fault was injected.
pub fn unexpected_panic(case: &Case, r: &RunResult) -> Option<Fail> {
    match &r.out {
        Err(Panicked::Other(msg)) => {
            let short: String = msg.chars().take(60).collect();
            Some(Verdict::fail(
                format!("terminal panicked: {msg}"),
                format!("panic:{}|{}", short, generic_sig(case, "")),
            ))
        }
        Err(Panicked::Injected) if case.faults.is_empty() => Some(Verdict::fail(
            "injected panic without an armed fault (harness error)",
            "harness",
        )),
        _ => None,
    }
}

/// labels shared by all schedule-sensitive properties
pub fn common_labels(case: &Case, r: &RunResult, v: &mut Verdict) {
    v.label(format!("src:{}", source_name(case.source)));
    v.label(format!("shape:{}", if case.chain.is_empty() { "-".to_string() } else { case.shape() }));
    v.label(format!("term:{}", r.term.name()));
    v.label(if case.is_sequential() { "seq" } else { "par" });
    v.label(if case.is_sched() { "mode:sched" } else { "mode:free" });
    let rs = runs(&r.log);
    if rs.len() > 1 {
        v.label("runs>1(eager stage)");
    }
    if let Mode::Sched(s) = &case.mode {
        if s.drop_yield > 0 {
            v.label("destructors are yield points");
        }
        if s.src_yield > 0 && case.source.is_instrumented_iter() {
            v.label("source iterator next() is a (revocable) yield point");
        }
    }
    if rs.iter().any(|run| run.workers.iter().any(|w| w.1 != run.chunk)) {
        v.label("mixed chunk sizes in one run (a late worker got a grown chunk)");
    }
    if r.sched.revoked > 0 {
        v.label("a revocable park was revoked (the running thread waited for something the parked thread holds)");
    }
    let busy = busy_workers(&r.log, 0);
    v.label(match busy {
        0 => "busy_workers:0",
        1 => "busy_workers:1",
        2..=3 => "busy_workers:2-3",
        _ => "busy_workers:4+",
    });
    for run in &rs {
        if run.spawned > busy_in_run(&r.log, run) {
            v.label("a worker came back empty");
            break;
        }
    }
    if let Some(first) = src_first_uid(case, r) {
        if let Some(t) = thread_of_stage0(&r.log, first) {
            if t >= 2 {
                v.label("late-spawned worker processed position 0");
            }
        }
    }
}

fn busy_in_run(log: &[Ev], run: &RunSeg) -> usize {
    log[run.begin..run.end.min(log.len())]
        .iter()
        .filter(|e| (e.kind.is_closure() || e.kind == Kind::SrcSome) && e.tid != 0)
        .map(|e| e.tid)
        .collect::<std::collections::BTreeSet<_>>()
        .len()
}

fn src_first_uid(case: &Case, r: &RunResult) -> Option<u64> {
    src_for(case, r).first().map(|v| v.uid)
}

/// item type at the terminal
#[derive(Clone, Copy, PartialEq, Eq, Debug)]
pub enum ItemKind {
    E,
    Usize,
    Other,
}
pub fn item_kind(case: &Case) -> ItemKind {
    let only_filters = case.chain.iter().all(|s| s.kind == StageKind::Filter);
    if !only_filters {
        return ItemKind::E;
    }
    if case.source.yields_usize() {
        ItemKind::Usize
    } else if case.source.yields_ref() || case.source.yields_pair() {
        ItemKind::Other
    } else {
        ItemKind::E
    }
}

pub fn prefix_values(case: &Case, term: &Term) -> Vec<V> {
    match term {
        Term::CollectInto { prefix, .. } => match item_kind(case) {
            ItemKind::E => prefix
                .iter()
                .enumerate()
                .map(|(i, &val)| V {
                    uid: prefix_uid(i),
                    val,
                })
                .collect(),
            ItemKind::Usize => prefix
                .iter()
                .map(|&val| V {
                    uid: val as u64,
                    val,
                })
                .collect(),
            ItemKind::Other => vec![],
        },
        _ => vec![],
    }
}

/// expected contents after collect_into (possibly a two-step history, see `elem::second_step`):
/// previous contents ++ [extras] ++ output ++ [extras]
pub fn collect_into_expected(case: &Case, term: &Term, out: &[V]) -> Vec<V> {
    let mut e = prefix_values(case, term);
    let (n, first) = match term {
        Term::CollectInto { spare, .. } => second_step(*spare),
        _ => (0, false),
    };
    let extras: Vec<V> = match item_kind(case) {
        ItemKind::E => (0..n)
            .map(|i| V {
                uid: prefix_uid(1000 + i),
                val: (i % 16) as u32,
            })
            .collect(),
        ItemKind::Usize => (0..n)
            .map(|i| V {
                uid: (i % 16) as u64,
                val: (i % 16) as u32,
            })
            .collect(),
        ItemKind::Other => vec![],
    };
    if first {
        e.extend(extras.iter().copied());
    }
    e.extend(out.iter().copied());
    if !first {
        e.extend(extras.iter().copied());
    }
    e
}

/// runs the case and performs the checks common to all value oracles; returns the pieces on success
pub fn run_basic(case: &Case) -> Result<(RunResult, Model), Verdict> {
    let r = run_case(case);
    if let Some(why) = unusable(&r) {
        return Err(Verdict {
            skipped: Some(why),
            ..Default::default()
        });
    }
    if let Some(f) = unexpected_panic(case, &r) {
        return Err(Verdict {
            fail: Some(f),
            ..Default::default()
        });
    }
    let m = model_for(case, &r);
    Ok((r, m))
}

pub fn first_diff(a: &[V], b: &[V]) -> String {
    let n = a.len().min(b.len());
    for i in 0..n {
        if a[i] != b[i] {
            return format!("first difference at index {i}: got {:?}, expected {:?} (lengths {} vs {})", a[i], b[i], a.len(), b.len());
        }
    }
    format!("lengths differ: got {}, expected {}", a.len(), b.len())
}

// re-exports for the check binary
pub use crate::gen::GenCfg as Cfg;

/// Static description of one property check.
pub struct PropDef {
    pub id: &'static str,
    pub rule: &'static str,
    /// free-running generator (None: not used)
    pub free: Option<GenCfg>,
    /// scheduled generator
    pub sched: Option<GenCfg>,
    /// (free cases, scheduled cases) per tier
    pub quick: (u32, u32),
    pub thorough: (u32, u32),
    /// enumerated sub-domain (complete, deterministic); second value: is the enumeration exhaustive for its stated domain
    pub dense: fn(thorough: bool, seed: u64) -> Vec<Case>,
    pub check: fn(&Case) -> Verdict,
    /// post-processing applied to generated cases (planting matches etc.)
    pub adjust: fn(Case) -> Case,
    pub assumptions: &'static [&'static str],
    /// tiny configurations whose schedules are enumerated exhaustively in the thorough tier (explicit-tape policy)
    pub tiny: fn() -> Vec<Case>,
    /// scheduled mode over long inputs / large chunks with coarse hand-over: (generator, quick cases, thorough cases)
    pub long: Option<(GenCfg, u32, u32)>,
    /// scheduled mode aimed at adaptive chunk growth (mixed chunk sizes in one run): (generator, quick cases, thorough cases)
    pub growth: Option<(GenCfg, u32, u32)>,
}

pub fn no_dense(_thorough: bool, _seed: u64) -> Vec<Case> {
    vec![]
}
pub fn no_adjust(c: Case) -> Case {
    c
}
pub fn no_tiny() -> Vec<Case> {
    vec![]
}

/// tiny parallel configurations: <= 3 workers, <= 4 elements, chunk sizes 1..2, explicit (enumerable) schedule
pub fn tiny_cases(terms: &[Term], chains: &[&[StageKind]], inputs: &[&[u32]]) -> Vec<Case> {
    let mut out = vec![];
    for term in terms {
        for kinds in chains {
            for input in inputs {
                for (t, c) in [(2usize, 1usize), (2, 2), (3, 1)] {
                    for source in [Source::VecOwned, Source::Iter { hint: Hint::Zero }] {
                        out.push(Case {
                            source,
                            input: input.to_vec(),
                            chain: kinds
                                .iter()
                                .enumerate()
                                .map(|(i, k)| Stage {
                                    kind: *k,
                                    k: 5 + i as u32,
                                    mask: 0xfffe,
                                    fan: 2,
                                })
                                .collect(),
                            params: vec![p_threads(0, t), p_chunk(0, Cs::Exact(c))],
                            term: term.clone(),
                            mode: Mode::Sched(crate::sched::Schedule {
                                policy: crate::sched::Policy::Explicit,
                                tape: vec![],
                                weights: vec![1; 18],
                                yield_every: 1,
                            drop_yield: 0,
                            src_yield: 0,
                            }),
                            faults: vec![],
                        });
                    }
                }
            }
        }
    }
    out
}

pub fn all() -> Vec<PropDef> {
    vec![
        results::c01(),
        find::c02(),
        results::c03(),
        results::c04(),
        visits::c05(),
        results::c06(),
        results::c07(),
        threads::c08(),
        visits::c09(),
        find::c10(),
        threads::c11(),
        config::c12(),
        drops::c13(),
        drops::c14(),
        config::c15(),
        lazy::c16(),
    ]
}

pub const COMMON_ASSUMPTIONS: &[&str] = &[
    "16 cores: std::thread::available_parallelism() = 16, so computations with more than 16 workers are not reachable",
    "dependencies as linked (orx-concurrent-iter 1.30.0, orx-concurrent-ordered-bag 2.13.0, orx-pinned-concurrent-col 2.18.0, orx-split-vec 3.23.0, orx-fixed-vec 3.24.0); they are exercised, not mutated",
    "free-running cases: the interleaving is chosen by the OS; scheduled cases: sequentially consistent interleavings at closure/hook granularity chosen by the generated tape",
    "the reference model (std::iter adaptors + the pure stage functions of harness/src/elem.rs) is trusted",
];

pub fn mk_free(f: impl FnOnce(&mut GenCfg)) -> Option<GenCfg> {
    let mut c = GenCfg::base(ModeCfg::Free);
    f(&mut c);
    Some(c)
}
pub fn mk_sched(f: impl FnOnce(&mut GenCfg)) -> Option<GenCfg> {
    let mut c = GenCfg::base(ModeCfg::Sched);
    f(&mut c);
    Some(c)
}

/// a fixed free-running mode for enumerated cases
pub fn free_mode(seed: u32) -> Mode {
    Mode::Free {
        spin_seed: seed,
        spin_max: if seed % 3 == 0 { 0 } else { 60 },
        src_spin: 0,
    }
}

pub fn p_threads(pos: u8, n: usize) -> ParamOp {
    ParamOp {
        pos,
        kind: ParamKind::Threads(Nt::Max(n)),
    }
}
pub fn p_chunk(pos: u8, c: Cs) -> ParamOp {
    ParamOp {
        pos,
        kind: ParamKind::Chunk(c),
    }
}

/// deterministic pseudo-random input for enumerated cases
pub fn det_input(len: usize, seed: u64) -> Vec<u32> {
    (0..len).map(|i| (mix(seed, i as u64) % 16) as u32).collect()
}

pub fn chain_of(kinds: &[StageKind], variant: u32) -> Vec<Stage> {
    kinds.iter().enumerate().map(|(i, k)| stage_of(*k, i, variant)).collect()
}
