//! C01 ordered collection, C03 reduce family, C04 count / for_each, C06 collect_into, C07 collect_x.

use super::*;
use crate::run::term_supported;

fn nontrivial_parallel(case: &Case, r: &RunResult) -> bool {
    !case.is_sequential() && busy_workers(&r.log, 0) >= 2
}

// ------------------------------------------------------------------------------------------------ C01

fn check_c01(case: &Case) -> Verdict {
    let (r, m) = match run_basic(case) {
        Ok(x) => x,
        Err(v) => return v,
    };
    let mut v = Verdict::default();
    common_labels(case, &r, &mut v);
    // (a collect_into terminal may be a two-step history on one - initially empty - target, see `elem::second_step`)
    let expected = collect_into_expected(case, &r.term, &m.out_v());
    match &r.out {
        Ok(Out::Seq(got)) => {
            if *got != expected {
                v.fail = Some(Verdict::fail(
                    format!("ordered collect differs from the sequential chain: {}", first_diff(got, &expected)),
                    generic_sig(case, "order"),
                ));
            }
        }
        other => {
            v.fail = Some(Verdict::fail(format!("unexpected outcome {:?}", other), generic_sig(case, "outcome")));
        }
    }
    let map_only_unknown = !case.source.known_len()
        && !case.chain.is_empty()
        && case.chain.iter().all(|s| s.kind == StageKind::Map)
        && !case.is_sequential();
    if map_only_unknown {
        v.label("map-only over unknown length (ordered bag path)");
    }
    if case.chain.iter().any(|s| s.kind == StageKind::FlatMap) {
        let ns: std::collections::BTreeSet<u32> = m
            .full_log
            .iter()
            .filter(|e| case.chain[e.stage as usize].kind == StageKind::FlatMap)
            .map(|e| e.extra)
            .collect();
        if ns.contains(&0) && ns.iter().any(|n| *n > 1) {
            v.label("flat_map fan-out 0 and >1 in one input");
        }
    }
    v.nontrivial = nontrivial_parallel(case, &r) || (map_only_unknown && !expected.is_empty());
    v
}

fn dense_chains(thorough: bool, terms: &[Term], sources: &[Source], seed: u64) -> Vec<Case> {
    let mut out = vec![];
    let mut n = 0u32;
    for kinds in all_shapes(3) {
        for (si, source) in sources.iter().enumerate() {
            for (ti, term) in terms.iter().enumerate() {
                if !term_supported(*source, kinds.len(), term) || kinds.len() > crate::run::max_depth(*source) {
                    continue;
                }
                n += 1;
                let variants = if thorough { 3 } else { 1 };
                for variant in 0..variants {
                    let len = [37usize, 64, 5][(n as usize + variant as usize) % 3];
                    out.push(Case {
                        source: *source,
                        input: det_input(len, seed ^ n as u64 ^ ((variant as u64) << 32)),
                        chain: chain_of(&kinds, variant + (si + ti) as u32),
                        params: vec![
                            p_threads(0, 2 + (n as usize % 5)),
                            p_chunk((n % 4) as u8, [Cs::Exact(1), Cs::Exact(3), Cs::Min(2), Cs::Auto][(n as usize / 2) % 4]),
                        ],
                        term: term.clone(),
                        mode: free_mode(n + variant),
                        faults: vec![],
                    });
                }
            }
        }
    }
    out
}

fn dense_c01(thorough: bool, _seed: u64) -> Vec<Case> {
    let terms = [
        Term::CollectVec,
        Term::Collect,
        Term::CollectInto {
            target: Target::Vec,
            prefix: vec![],
            spare: 3,
        },
        Term::CollectInto {
            target: Target::SplitDoubling,
            prefix: vec![],
            spare: 0,
        },
        Term::CollectInto {
            target: Target::Fixed,
            prefix: vec![],
            spare: 0,
        },
    ];
    let sources = [Source::VecOwned, Source::Iter { hint: Hint::Zero }];
    dense_chains(thorough, &terms, &sources, 0xC01)
}

pub fn c01() -> PropDef {
    PropDef {
        id: "C01",
        rule: "cases: proptest over (source kind, input, chain of 0..3 stages, params at any position, collect terminal, mode) + all 85 chain shapes x {Vec, unknown-length iterator} x collect terminals; non-trivial: parallel parameters and >=2 worker threads executed closures or pulled elements (measured from the event log), or a map-only pipeline over an unknown-length source with non-empty output; distinct by case hash",
        free: mk_free(|c| c.terms = vec![TermClass::Collect]),
        sched: mk_sched(|c| c.terms = vec![TermClass::Collect]),
        quick: (12000, 3000),
        thorough: (60000, 12000),
        dense: dense_c01,
        check: check_c01,
        adjust: no_adjust,
        assumptions: COMMON_ASSUMPTIONS,
        tiny: || {
            tiny_cases(
                &[Term::CollectVec],
                &[&[StageKind::Map], &[StageKind::Filter], &[StageKind::FlatMap]],
                &[&[1, 0, 2, 1], &[0, 2, 3]],
            )
        },
        long: Some(({ let mut c = GenCfg::long_sched(); c.terms = vec![TermClass::Collect]; c }, 400, 2500)),
        growth: Some(({ let mut c = GenCfg::growth_sched(); c.terms = vec![TermClass::Collect]; c }, 400, 3000)),
    }
}

// ------------------------------------------------------------------------------------------------ C03

fn extremal_ok(got: Option<V>, out: &[V], want_min: bool) -> Result<(), String> {
    match (got, out.is_empty()) {
        (None, true) => Ok(()),
        (None, false) => Err("returned None although elements survive".into()),
        (Some(g), true) => Err(format!("returned {:?} although nothing survives", g)),
        (Some(g), false) => {
            if !out.contains(&g) {
                return Err(format!("result {:?} is not one of the surviving elements", g));
            }
            let best = if want_min {
                out.iter().map(|x| tie_key(*x)).min()
            } else {
                out.iter().map(|x| tie_key(*x)).max()
            };
            if Some(tie_key(g)) != best {
                return Err(format!("result {:?} has key {} but the extremal key is {:?}", g, tie_key(g), best));
            }
            Ok(())
        }
    }
}

pub fn expected_reduce(out: &[V], op: RedOp) -> Option<V> {
    out.iter().copied().reduce(|a, b| combine_v(op, a, b))
}

pub fn check_reduce_value(case: &Case, r: &RunResult, m: &Model) -> Option<Fail> {
    let out = m.out_v();
    let bad = |why: String| Some(Verdict::fail(why, generic_sig(case, "reduce")));
    match (&r.term, &r.out) {
        (Term::Reduce { op }, Ok(Out::Opt(got))) => {
            let e = expected_reduce(&out, *op);
            if *got != e {
                return bad(format!("reduce({:?}) = {:?}, sequential fold = {:?}", op, got, e));
            }
        }
        (Term::Fold { op }, Ok(Out::Val(got))) => {
            let e = expected_reduce(&out, *op).unwrap_or(model::fold_identity(*op));
            if *got != e {
                return bad(format!("fold({:?}) = {:?}, sequential fold = {:?}", op, got, e));
            }
        }
        (Term::Sum, Ok(Out::Val(got))) => {
            let e = expected_reduce(&out, RedOp::Add).unwrap_or(V { uid: 0, val: 0 });
            if *got != e {
                return bad(format!("sum = {:?}, sequential = {:?}", got, e));
            }
        }
        (Term::Min, Ok(Out::Opt(got))) => {
            let e = out.iter().copied().min();
            if *got != e {
                return bad(format!("min = {:?}, sequential = {:?}", got, e));
            }
        }
        (Term::Max, Ok(Out::Opt(got))) => {
            let e = out.iter().copied().max();
            if *got != e {
                return bad(format!("max = {:?}, sequential = {:?}", got, e));
            }
        }
        (Term::MinBy | Term::MinByKey, Ok(Out::Opt(got))) => {
            if let Err(e) = extremal_ok(*got, &out, true) {
                return bad(format!("{}: {e}", r.term.name()));
            }
        }
        (Term::MaxBy | Term::MaxByKey, Ok(Out::Opt(got))) => {
            if let Err(e) = extremal_ok(*got, &out, false) {
                return bad(format!("{}: {e}", r.term.name()));
            }
        }
        (t, o) => return bad(format!("unexpected outcome {:?} for {:?}", o, t)),
    }
    None
}

fn check_c03(case: &Case) -> Verdict {
    let (r, m) = match run_basic(case) {
        Ok(x) => x,
        Err(v) => return v,
    };
    let mut v = Verdict::default();
    common_labels(case, &r, &mut v);
    v.fail = check_reduce_value(case, &r, &m);
    if let Term::Reduce { op } | Term::Fold { op } = &r.term {
        v.label(format!("op:{:?}", op));
    }
    if m.out.is_empty() {
        v.label("nothing survives");
    }
    v.nontrivial = nontrivial_parallel(case, &r) && m.out.len() >= 2;
    v
}

fn dense_c03(thorough: bool, _seed: u64) -> Vec<Case> {
    let terms = [
        Term::Reduce { op: RedOp::Add },
        Term::Reduce { op: RedOp::Xor },
        Term::Fold { op: RedOp::Add },
        Term::Sum,
        Term::Min,
        Term::Max,
        Term::MinBy,
        Term::MaxBy,
        Term::MinByKey,
        Term::MaxByKey,
    ];
    let mut out = vec![];
    let mut n = 0u32;
    for kinds in all_shapes(2) {
        for source in [Source::VecOwned, Source::Iter { hint: Hint::Zero }] {
            for term in &terms {
                n += 1;
                if !thorough && n % 2 == 0 {
                    continue;
                }
                out.push(Case {
                    source,
                    input: det_input(30 + (n as usize % 20), 0xC03 ^ n as u64),
                    chain: chain_of(&kinds, n),
                    params: vec![p_threads(0, 2 + (n as usize % 4)), p_chunk(0, [Cs::Exact(1), Cs::Exact(4), Cs::Min(2)][n as usize % 3])],
                    term: term.clone(),
                    mode: free_mode(n),
                    faults: vec![],
                });
            }
        }
    }
    out
}

pub fn c03() -> PropDef {
    PropDef {
        id: "C03",
        rule: "cases: proptest over (source, input with duplicates, chain, params, reduce-family terminal with operator in {wrapping add+uid fingerprint, xor, min, max}, mode) + 21 chain shapes x 2 sources x 10 terminals; oracle: sequential fold of the std model (by-key: extremal key and membership); non-trivial: parallel, >=2 worker threads executed closures and >=2 elements survive; distinct by case hash",
        free: mk_free(|c| c.terms = vec![TermClass::ReduceFamily]),
        sched: mk_sched(|c| c.terms = vec![TermClass::ReduceFamily]),
        quick: (9000, 3000),
        thorough: (60000, 12000),
        dense: dense_c03,
        check: check_c03,
        adjust: no_adjust,
        assumptions: COMMON_ASSUMPTIONS,
        tiny: || {
            tiny_cases(
                &[Term::Reduce { op: RedOp::Add }, Term::MinByKey],
                &[&[StageKind::Filter], &[StageKind::FlatMap]],
                &[&[1, 0, 2, 1], &[0, 0, 3]],
            )
        },
        long: Some(({ let mut c = GenCfg::long_sched(); c.terms = vec![TermClass::ReduceFamily]; c }, 400, 2500)),
        growth: Some(({ let mut c = GenCfg::growth_sched(); c.terms = vec![TermClass::ReduceFamily]; c }, 300, 2500)),
    }
}

// ------------------------------------------------------------------------------------------------ C04

fn check_c04(case: &Case) -> Verdict {
    let (r, m) = match run_basic(case) {
        Ok(x) => x,
        Err(v) => return v,
    };
    let mut v = Verdict::default();
    common_labels(case, &r, &mut v);
    match (&r.term, &r.out) {
        (Term::Count, Ok(Out::Count(n))) => {
            if *n != m.out.len() {
                v.fail = Some(Verdict::fail(
                    format!("count = {}, the sequential chain yields {}", n, m.out.len()),
                    generic_sig(case, "count"),
                ));
            }
        }
        (Term::ForEach, Ok(Out::Unit)) => {
            let mut got: Vec<u64> = r.log.iter().filter(|e| e.kind == Kind::ForEach).map(|e| e.uid).collect();
            let mut exp: Vec<u64> = m.out.iter().map(|x| x.0.uid).collect();
            got.sort();
            exp.sort();
            if got != exp {
                v.fail = Some(Verdict::fail(
                    format!("for_each visited {} elements, the sequential chain yields {} (multisets differ)", got.len(), exp.len()),
                    generic_sig(case, "for_each"),
                ));
            }
        }
        (t, o) => v.fail = Some(Verdict::fail(format!("unexpected outcome {:?} for {:?}", o, t), generic_sig(case, "outcome"))),
    }
    // which code path of the counting kernels ran
    for run in runs(&r.log) {
        for (_, c) in &run.workers {
            v.label(if *c == 1 { "chunk-size-1 path" } else { "chunked path" });
        }
    }
    v.nontrivial = nontrivial_parallel(case, &r) && !m.out.is_empty();
    v
}

fn dense_c04(thorough: bool, _seed: u64) -> Vec<Case> {
    let mut out = vec![];
    let mut n = 0u32;
    for kinds in all_shapes(3) {
        for source in [Source::VecOwned, Source::Iter { hint: Hint::Lower }] {
            for term in [Term::Count, Term::ForEach] {
                n += 1;
                if !term_supported(source, kinds.len(), &term) {
                    continue;
                }
                for c in if thorough { vec![1usize, 2, 5] } else { vec![[1usize, 3][n as usize % 2]] } {
                    out.push(Case {
                        source,
                        input: det_input(40, 0xC04 ^ n as u64),
                        chain: chain_of(&kinds, n),
                        params: vec![p_threads(0, 3 + (n as usize % 3)), p_chunk(0, Cs::Exact(c))],
                        term: term.clone(),
                        mode: free_mode(n),
                        faults: vec![],
                    });
                }
            }
        }
    }
    out
}

pub fn c04() -> PropDef {
    PropDef {
        id: "C04",
        rule: "cases: proptest over (source, input, chain, params, count|for_each, mode) + all 85 chain shapes x 2 sources x {count, for_each} x chunk sizes {1, >1}; oracle: count == length of the std chain's output, multiset of for_each arguments == multiset of the std chain's output (by element identity); non-trivial: parallel, >=2 worker threads executed closures, non-empty output; distinct by case hash",
        free: mk_free(|c| c.terms = vec![TermClass::Count, TermClass::ForEach]),
        sched: mk_sched(|c| {
            c.terms = vec![TermClass::Count, TermClass::ForEach];
            // chunk size 1 selects the hand-rolled nested loop of the filter_map counter
            c.chunk = ChunkCfg::Small(3);
        }),
        quick: (7500, 3000),
        thorough: (60000, 12000),
        dense: dense_c04,
        check: check_c04,
        adjust: no_adjust,
        assumptions: COMMON_ASSUMPTIONS,
        tiny: || tiny_cases(&[Term::Count], &[&[StageKind::FilterMap], &[StageKind::Filter]], &[&[1, 0, 2, 1], &[0, 0, 3]]),
        long: Some(({ let mut c = GenCfg::long_sched(); c.terms = vec![TermClass::Count, TermClass::ForEach]; c }, 300, 2000)),
        growth: Some(({ let mut c = GenCfg::growth_sched(); c.terms = vec![TermClass::Count, TermClass::ForEach]; c }, 300, 2500)),
    }
}

// ------------------------------------------------------------------------------------------------ C06

fn check_c06(case: &Case) -> Verdict {
    let (r, m) = match run_basic(case) {
        Ok(x) => x,
        Err(v) => return v,
    };
    let mut v = Verdict::default();
    common_labels(case, &r, &mut v);
    let prefix = prefix_values(case, &r.term);
    let expected = collect_into_expected(case, &r.term, &m.out_v());
    let (target, spare) = match &r.term {
        Term::CollectInto { target, spare, .. } => (*target, *spare),
        _ => (Target::Vec, 0),
    };
    let map_only = !case.chain.is_empty() && case.chain.iter().all(|s| s.kind == StageKind::Map) || case.source == Source::ParCloned && case.chain.iter().all(|s| s.kind == StageKind::Map);
    let triple = format!(
        "{}|{}|{:?}|{}",
        if map_only { "map-only" } else if case.chain.is_empty() { "no-stage" } else { "filtering" },
        if case.source.known_len() { "known-len" } else { "unknown-len" },
        target,
        if case.is_sequential() { "seq" } else { "par" }
    );
    v.label(format!("triple:{triple}"));
    v.label(match prefix.len() {
        0 => "prefix:0",
        1 => "prefix:1",
        n if n < m.out.len() => "prefix<output",
        _ => "prefix>=output",
    });
    v.label(if spare == 0 { "no spare capacity" } else { "spare capacity" });
    match second_step(spare) {
        (0, _) => {}
        (_, true) => v.label("two-step history: small collect first, then the computation into what it returned"),
        (_, false) => v.label("two-step history: a second collect into the returned collection"),
    }
    match &r.out {
        Ok(Out::Seq(got)) => {
            if *got != expected {
                let kept = got.len() >= prefix.len() && got[..prefix.len()] == prefix[..];
                v.fail = Some(Verdict::fail(
                    format!(
                        "collect_into: previous contents {}; {}",
                        if kept { "kept" } else { "NOT kept in place" },
                        first_diff(got, &expected)
                    ),
                    format!("collect_into|{triple}|{}", if kept { "tail" } else { "prefix-lost" }),
                ));
            }
        }
        o => v.fail = Some(Verdict::fail(format!("unexpected outcome {:?}", o), generic_sig(case, "outcome"))),
    }
    v.nontrivial = !prefix.is_empty();
    v
}

fn dense_c06(thorough: bool, _seed: u64) -> Vec<Case> {
    let mut out = vec![];
    let mut n = 0u32;
    let sources = [
        Source::VecOwned,
        Source::Iter { hint: Hint::Exact },
        Source::Iter { hint: Hint::Zero },
        Source::Iter { hint: Hint::Loose },
    ];
    for kinds in all_shapes(2) {
        for source in sources {
            for target in [Target::Vec, Target::SplitDoubling, Target::SplitLinear, Target::Fixed] {
                for plen in [0usize, 1, 5, 50] {
                    for seq in [false, true] {
                        n += 1;
                        if !thorough && (n % 3 != 0) && !(kinds.iter().all(|k| *k == StageKind::Map) && !kinds.is_empty()) {
                            continue;
                        }
                        out.push(Case {
                            source,
                            input: det_input(23, 0xC06 ^ n as u64),
                            chain: chain_of(&kinds, n),
                            params: vec![p_threads(0, if seq { 1 } else { 3 }), p_chunk(0, Cs::Exact(1 + (n as usize % 3)))],
                            term: Term::CollectInto {
                                target,
                                prefix: det_input(plen, 0xF00D ^ n as u64),
                                spare: [0u16, 7, 100][n as usize % 3],
                            },
                            mode: free_mode(n),
                            faults: vec![],
                        });
                    }
                }
            }
        }
    }
    out
}

pub fn c06() -> PropDef {
    PropDef {
        id: "C06",
        rule: "cases: proptest over (source of known/unknown length, input, chain, params incl. sequential, collect_into target kind x pre-existing contents x spare capacity, mode) + 21 chain shapes x 4 sources x 4 targets x 4 prefix lengths x {par, seq}; oracle: result == previous contents (same element identities, in place) ++ std chain output; non-trivial: non-empty previous contents; distinct by case hash",
        free: mk_free(|c| {
            c.terms = vec![TermClass::CollectIntoPrefixed];
            c.max_len = 600;
        }),
        sched: mk_sched(|c| c.terms = vec![TermClass::CollectIntoPrefixed]),
        quick: (9000, 1500),
        thorough: (60000, 8000),
        dense: dense_c06,
        check: check_c06,
        adjust: no_adjust,
        assumptions: COMMON_ASSUMPTIONS,
        tiny: no_tiny,
        long: None,
        growth: Some(({ let mut c = GenCfg::growth_sched(); c.terms = vec![TermClass::CollectIntoPrefixed]; c }, 300, 2500)),
    }
}

// ------------------------------------------------------------------------------------------------ C07

fn check_c07(case: &Case) -> Verdict {
    let (r, m) = match run_basic(case) {
        Ok(x) => x,
        Err(v) => return v,
    };
    let mut v = Verdict::default();
    common_labels(case, &r, &mut v);
    match &r.out {
        Ok(Out::Seq(got)) => {
            let g = sorted(got);
            let e = sorted(&m.out_v());
            if g != e {
                v.fail = Some(Verdict::fail(
                    format!("collect_x is not a permutation of the sequential result: {}", first_diff(&g, &e)),
                    generic_sig(case, "multiset"),
                ));
            }
        }
        o => v.fail = Some(Verdict::fail(format!("unexpected outcome {:?}", o), generic_sig(case, "outcome"))),
    }
    v.nontrivial = nontrivial_parallel(case, &r) && !m.out.is_empty();
    v
}

fn dense_c07(thorough: bool, _seed: u64) -> Vec<Case> {
    dense_chains(thorough, &[Term::CollectX], &[Source::VecOwned, Source::Iter { hint: Hint::Zero }], 0xC07)
}

pub fn c07() -> PropDef {
    PropDef {
        id: "C07",
        rule: "cases: proptest over (source, input with duplicates, chain, params, collect_x, mode) + all 85 chain shapes x 2 sources; oracle: sorted (uid, value) sequence == sorted std chain output (both directions: nothing lost, duplicated or invented); non-trivial: parallel, >=2 worker threads executed closures, non-empty output; distinct by case hash",
        free: mk_free(|c| c.terms = vec![TermClass::CollectX]),
        sched: mk_sched(|c| c.terms = vec![TermClass::CollectX]),
        quick: (7500, 2400),
        thorough: (60000, 12000),
        dense: dense_c07,
        check: check_c07,
        adjust: no_adjust,
        assumptions: COMMON_ASSUMPTIONS,
        tiny: no_tiny,
        long: Some(({ let mut c = GenCfg::long_sched(); c.terms = vec![TermClass::CollectX]; c }, 300, 2000)),
        growth: Some(({ let mut c = GenCfg::growth_sched(); c.terms = vec![TermClass::CollectX]; c }, 1000, 6000)),
    }
}
