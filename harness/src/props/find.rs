//! C02 first match in source order, C10 early exit.

use super::*;
use crate::model::{lazy_find, shapes, MEv};

/// (mask, negate) of the predicate the library searches with; None = `first`
fn pred_of(term: &Term) -> Option<(u16, bool)> {
    match term {
        Term::Find { mask } | Term::Any { mask } | Term::FindIdx { mask } => Some((*mask, false)),
        Term::All { mask } => Some((*mask, true)),
        _ => None,
    }
}

/// expected outcome of a short-circuit terminal from the lazy std evaluation
fn expected_short(term: &Term, found: Option<(V, usize)>) -> Out {
    match term {
        Term::Find { .. } | Term::First => Out::Opt(found.map(|x| x.0)),
        Term::Any { .. } => Out::Bool(found.is_some()),
        Term::All { .. } => Out::Bool(found.is_none()),
        Term::FindIdx { .. } | Term::FirstIdx => Out::OptIdx(found.map(|x| (x.1, x.0))),
        _ => Out::Unsupported,
    }
}

/// Source values (0..16) for which a single element yields a match through chain and predicate.
fn matching_vals(case: &Case) -> Vec<bool> {
    let p = pred_of(&case.term);
    (0..16u32)
        .map(|val| {
            let mut c = case.clone();
            c.input = vec![val];
            if matches!(c.source, Source::SliceRef { .. }) {
                c.source = Source::VecRef;
            }
            if matches!(c.source, Source::ArrayRef) {
                c.source = Source::VecRef;
            }
            let src = vec![V { uid: root_uid(0), val }];
            lazy_find(&c, src, p.map(|x| x.0), p.map(|x| x.1).unwrap_or(false))
                .found
                .is_some()
        })
        .collect()
}

/// Rewrites the input so that the number and the positions of matches are controlled:
/// none / one / several in one chunk / several far apart / as generated. Pure function of the case.
pub fn plant(mut case: Case) -> Case {
    if case.source.yields_usize() || case.input.is_empty() {
        return case;
    }
    let hit = matching_vals(&case);
    let yes: Vec<u32> = (0..16).filter(|v| hit[*v as usize]).collect();
    let no: Vec<u32> = (0..16).filter(|v| !hit[*v as usize]).collect();
    if yes.is_empty() || no.is_empty() {
        return case;
    }
    let h = case.input.iter().fold(0x1234u64, |a, b| mix(a, *b as u64));
    let n = case.input.len();
    // long inputs: half of the cases get the "first match deep inside, many matches after it" pattern
    let pattern = if n >= 300 && (h >> 8) % 2 == 0 { 5 } else { h % 6 };
    if pattern == 0 {
        return case; // as generated
    }
    let filler: Vec<u32> = (0..n).map(|i| no[(mix(h, i as u64) % no.len() as u64) as usize]).collect();
    let y = |i: u64| yes[(mix(h ^ 0x77, i) % yes.len() as u64) as usize];
    let mut input = filler;
    let p0 = (mix(h, 1) % n as u64) as usize;
    match pattern {
        1 => {} // no match at all
        2 => input[p0] = y(0),
        3 => {
            // several close together (same chunk for most chunk sizes)
            input[p0] = y(0);
            if p0 + 1 < n {
                input[p0 + 1] = y(1);
            }
            if p0 + 2 < n {
                input[p0 + 2] = y(2);
            }
        }
        4 => {
            // several far apart: different chunks, typically different threads
            for j in 0..4u64 {
                let p = (mix(h, 10 + j) % n as u64) as usize;
                input[p] = y(j);
            }
        }
        _ => {
            // a late first match and many matches after it
            let p = n / 2 + (mix(h, 3) % (n as u64 / 2 + 1)) as usize;
            for q in p.min(n - 1)..n {
                if mix(h, q as u64) % 3 != 0 {
                    input[q] = y(q as u64);
                }
            }
            input[p.min(n - 1)] = y(99);
        }
    }
    case.input = input;
    case
}

fn check_c02(case: &Case) -> Verdict {
    let r = run_case(case);
    if let Some(why) = unusable(&r) {
        return Verdict {
            skipped: Some(why),
            ..Default::default()
        };
    }
    let mut v = Verdict::default();
    if let Some(f) = unexpected_panic(case, &r) {
        v.fail = Some(f);
        return v;
    }
    common_labels(case, &r, &mut v);
    let src = src_for(case, &r);
    let p = pred_of(&r.term);
    let lazy = lazy_find(case, src, p.map(|x| x.0), p.map(|x| x.1).unwrap_or(false));
    let expected = expected_short(&r.term, lazy.found);
    match &r.out {
        Ok(got) if *got == expected => {}
        Ok(got) => {
            let what = match (&expected, got) {
                (Out::Opt(Some(_)), Out::Opt(Some(_))) | (Out::OptIdx(Some(_)), Out::OptIdx(Some(_))) => "later-match-or-wrong-index",
                (Out::Opt(Some(_)), Out::Opt(None)) | (Out::OptIdx(Some(_)), Out::OptIdx(None)) => "match-missed",
                (Out::Opt(None), _) | (Out::OptIdx(None), _) => "invented-match",
                _ => "bool",
            };
            v.fail = Some(Verdict::fail(
                format!("{} returned {:?}, the first match in source order is {:?}", r.term.name(), got, expected),
                generic_sig(case, what),
            ));
        }
        Err(_) => unreachable!("handled above"),
    }
    // how many matches exist, who found what, in which order in time
    let m = model_for(case, &r);
    let n_matches = match p {
        Some((mask, neg)) => m.out.iter().filter(|x| mask_hit(x.0.val, mask) != neg).count(),
        None => m.out.len(),
    };
    v.label(match n_matches {
        0 => "matches:0",
        1 => "matches:1",
        _ => "matches:2+",
    });
    let decisive: Vec<&Ev> = decisive_events(case, &r);
    let finders: std::collections::BTreeSet<u16> = decisive.iter().map(|e| e.tid).collect();
    if finders.len() >= 2 {
        v.label("several threads found (different) matches");
    }
    if let (Some(first_in_time), Some((fv, _))) = (decisive.first(), lazy.found) {
        let true_first_uid = match p {
            Some(_) => fv.uid,
            None => fv.uid,
        };
        if decisive_subject(case, first_in_time) != Some(true_first_uid) && p.is_some() {
            v.label("a later match was found before the true first match");
        }
        if let Some(w) = decisive.iter().find(|e| decisive_subject(case, e) == Some(true_first_uid)) {
            if w.tid >= 2 {
                v.label("the winner is not the first-spawned worker");
            }
        }
    }
    let evaluators: std::collections::BTreeSet<u16> = r.log[r.term_start.min(r.log.len())..]
        .iter()
        .filter(|e| e.kind.is_closure() && e.tid != 0)
        .map(|e| e.tid)
        .collect();
    v.nontrivial = !case.is_sequential() && n_matches >= 2 && evaluators.len() >= 2;
    v
}

/// events (terminal phase, in time order) at which a match decision became true
fn decisive_events<'a>(case: &Case, r: &'a RunResult) -> Vec<&'a Ev> {
    let from = r.term_start.min(r.log.len());
    let p = pred_of(&r.term);
    let last = case.chain.len().checked_sub(1);
    r.log[from..]
        .iter()
        .filter(|e| match p {
            Some((_, neg)) => e.kind == Kind::Pred && ((e.extra == 1) != neg),
            None => match last {
                Some(l) => e.kind == Kind::Stage && e.stage as usize == l && e.extra >= 1,
                None => false,
            },
        })
        .collect()
}
/// uid of the element a decisive predicate event is about (None for `first`: the event names the argument of the last stage)
fn decisive_subject(case: &Case, e: &Ev) -> Option<u64> {
    let _ = case;
    (e.kind == Kind::Pred).then_some(e.uid)
}

fn dense_c02(thorough: bool, _seed: u64) -> Vec<Case> {
    // the seven concrete shapes exposing the *_with_index terminals, on both deep sources, planted inputs
    use StageKind::*;
    let shapes: [&[StageKind]; 7] = [&[], &[Map], &[Map, Map], &[Filter], &[Filter, Filter], &[Map, Filter], &[Map, Filter, Filter]];
    let mut out = vec![];
    let mut n = 0u32;
    for kinds in shapes {
        for source in [Source::VecOwned, Source::Iter { hint: Hint::Zero }, Source::Iter { hint: Hint::Exact }] {
            for term in [Term::FindIdx { mask: 0x0421 }, Term::FirstIdx, Term::FindIdx { mask: 0x8000 }] {
                for rep in 0..(if thorough { 12 } else { 3 }) {
                    n += 1;
                    let mut chain = chain_of(kinds, n);
                    for s in chain.iter_mut() {
                        if s.kind == Filter {
                            s.mask |= 0x7bde;
                        }
                    }
                    let c = Case {
                        source,
                        input: det_input(24 + (n as usize % 30), 0xC02 ^ ((n as u64) << 8) ^ rep as u64),
                        chain,
                        params: vec![p_threads(0, 2 + (n as usize % 5)), p_chunk(0, [Cs::Exact(1), Cs::Exact(3), Cs::Min(2), Cs::Exact(5)][n as usize % 4])],
                        term: term.clone(),
                        mode: Mode::Sched(crate::sched::Schedule {
                            policy: [crate::sched::Policy::Weighted, crate::sched::Policy::Uniform, crate::sched::Policy::Priority][n as usize % 3],
                            tape: (0..120).map(|i| (mix(n as u64, i) & 0xff) as u8).collect(),
                            weights: (0..18).map(|i| if i >= 2 { 6 } else { 1 }).collect(),
                            yield_every: 1,
                            drop_yield: 0,
                            src_yield: 0,
                        }),
                        faults: vec![],
                    };
                    out.push(plant(c));
                }
            }
        }
    }
    out
}

pub fn c02() -> PropDef {
    PropDef {
        id: "C02",
        rule: "cases: proptest over (source, input, chain, params, find|first|any|all, mode) with inputs re-planted so that 0 / 1 / several-adjacent / several-far-apart / late-first matches occur, + the 7 concrete shapes exposing find_with_index/first_with_index x 3 sources under generated schedules; oracle: lazy std evaluation (value, None-ness, index = position in the original source, any/all booleans); non-trivial: parallel, >=2 matches exist and >=2 worker threads evaluated closures during the terminal; distinct by case hash",
        free: mk_free(|c| {
            c.terms = vec![TermClass::ShortCircuit, TermClass::WithIndex];
        }),
        sched: mk_sched(|c| {
            c.terms = vec![TermClass::ShortCircuit, TermClass::WithIndex];
            c.max_len = 48;
        }),
        quick: (9000, 4500),
        thorough: (60000, 15000),
        dense: dense_c02,
        check: check_c02,
        adjust: plant,
        assumptions: COMMON_ASSUMPTIONS,
        tiny: || {
            tiny_cases(
                &[Term::Find { mask: 0x0006 }, Term::All { mask: 0xfff9 }],
                &[&[], &[StageKind::Filter]],
                &[&[1, 0, 2, 1], &[0, 2, 1], &[3, 3, 1, 2]],
            )
        },
        long: Some(({ let mut c = GenCfg::long_sched(); c.terms = vec![TermClass::ShortCircuit, TermClass::WithIndex]; c }, 800, 4000)),
        growth: Some(({ let mut c = GenCfg::growth_sched(); c.terms = vec![TermClass::ShortCircuit, TermClass::WithIndex]; c }, 300, 2500)),
    }
}

// ------------------------------------------------------------------------------------------------ C10

/// Domain restriction of C10: chains the pinned tree evaluates in one pass (the eight eager sites are the open
/// C16 findings; over an unbounded source they make construction itself non-terminating).
fn one_pass(mut case: Case) -> Case {
    let (_, _, eager) = shapes(&case.chain);
    if let Some(first) = eager.first() {
        case.chain.truncate(*first);
        let n = case.chain.len() as u8;
        for p in case.params.iter_mut() {
            p.pos = p.pos.min(n);
        }
    }
    case
}

/// free mode asserts termination only: the endless source trips after this many elements (seconds of other threads' work)
pub const FREE_BUDGET: u32 = 300_000;

fn resolved_threads_chunk(case: &Case) -> (usize, usize) {
    let (nt, cs) = case.final_params();
    let t = match nt {
        NtModel::Auto => 16,
        NtModel::Max(n) => n.min(16),
    };
    let c = match cs {
        CsModel::Auto => 1,
        CsModel::Exact(c) | CsModel::Min(c) => c,
    };
    (t.max(1), c.max(1))
}

pub fn adjust_c10(case: Case) -> Case {
    let mut case = one_pass(case);
    // keep expansions small: a broken early exit must be cheap to observe (it consumes the whole budget)
    for s in case.chain.iter_mut() {
        s.fan = s.fan.min(3);
    }
    if !matches!(case.term, Term::Find { .. } | Term::First | Term::Any { .. } | Term::All { .. }) {
        case.term = Term::First;
    }
    if case.input.is_empty() {
        case.input = vec![3, 1, 4];
    }
    // make sure a match exists (terminates on endless sources) and sits where the generator's hash puts it
    if !matching_vals(&case).iter().any(|x| *x) {
        // nothing can match through this chain/predicate: search for the first element instead
        case.term = Term::First;
        if !matching_vals(&case).iter().any(|x| *x) {
            // the chain filters everything: drop it
            case.chain.clear();
            for p in case.params.iter_mut() {
                p.pos = 0;
            }
        }
    }
    let hit = matching_vals(&case);
    let yes: Vec<u32> = (0..16).filter(|v| hit[*v as usize]).collect();
    let no: Vec<u32> = (0..16).filter(|v| !hit[*v as usize]).collect();
    assert!(!yes.is_empty());
    if !case.source.yields_usize() {
        let h = case.input.iter().fold(0x4321u64, |a, b| mix(a, *b as u64));
        let n = case.input.len();
        let first = (mix(h, 7) % n as u64) as usize;
        for (i, x) in case.input.iter_mut().enumerate() {
            if i < first && !no.is_empty() {
                *x = no[(mix(h, i as u64) % no.len() as u64) as usize];
            } else if i == first {
                *x = yes[(mix(h, 99) % yes.len() as u64) as usize];
            }
            // the tail stays as generated: later matches may well be found first
        }
    }
    // destructors are not yield points in C10: between the match decision and the publication of the early exit the
    // finder legitimately runs user code - it drops the unread rest of its chunk (owning sources) and of a flat_map's
    // inner iterator - and whatever the others do meanwhile is not "work after the signal". The exact bound below is
    // stated for schedules whose only yield points are closure entries and runner hooks.
    if let Mode::Sched(s) = &mut case.mode {
        s.drop_yield = 0;
        s.src_yield = 0;
    }
    if let Source::Endless { .. } = case.source {
        let (t, c) = resolved_threads_chunk(&case);
        let tape = match &case.mode {
            Mode::Sched(s) => s.tape.len(),
            _ => 0,
        };
        let budget = match case.mode {
            // free mode: only termination is asserted, with a deliberately huge budget
            Mode::Free { .. } => FREE_BUDGET,
            Mode::Sched(_) => case
                .input
                .len()
                .saturating_add(c.saturating_mul(tape.saturating_add(4usize.saturating_mul(t).saturating_mul(c)).saturating_add(64)))
                .min(u32::MAX as usize) as u32,
        };
        case.source = Source::Endless { budget };
    }
    case
}

fn check_c10(case: &Case) -> Verdict {
    let mut r = run_case(case);
    let mut v = Verdict::default();
    if !r.tripped {
        if let Some(why) = unusable(&r) {
            v.skipped = Some(why);
            return v;
        }
    }
    if let Some(f) = unexpected_panic(case, &r) {
        v.fail = Some(f);
        return v;
    }
    if !r.tripped {
        common_labels(case, &r, &mut v);
    }
    let endless = matches!(case.source, Source::Endless { .. });
    // ---- termination
    if r.tripped {
        if case.is_sched() {
            v.fail = Some(Verdict::fail(
                format!(
                    "the endless source was consumed up to its budget ({} elements asked) although a match exists: no early exit",
                    r.src_nexts
                ),
                generic_sig(case, "no-early-exit"),
            ));
            return v;
        }
        // free mode: a single trip could be a pre-empted finder; require three consecutive reproductions
        let mut trips = 1;
        for _ in 0..2 {
            r = run_case(case);
            v.extra_runs += 1;
            if r.tripped {
                trips += 1;
            } else {
                break;
            }
        }
        if trips == 3 {
            v.fail = Some(Verdict::fail(
                "the endless source was consumed up to its budget (300k elements) three times in a row: no early exit",
                generic_sig(case, "no-early-exit"),
            ));
            return v;
        }
        v.label("free-mode trip did not reproduce");
        if let Some(why) = unusable(&r) {
            v.skipped = Some(why);
            return v;
        }
    }
    // (the answer itself is C02's business; what is needed here is the lazy std evaluation to compare the work with)
    let src = src_for(case, &r);
    let p = pred_of(&r.term);
    let lazy = lazy_find(case, src.clone(), p.map(|x| x.0), p.map(|x| x.1).unwrap_or(false));
    let from = r.term_start.min(r.log.len());
    // ---- sequential clause: exactly the lazy std evaluation
    if case.is_sequential() {
        v.label("sequential clause");
        let got: Vec<MEv> = r.log[from..]
            .iter()
            .filter(|e| matches!(e.kind, Kind::Stage | Kind::Pred))
            .map(|e| MEv {
                pred: e.kind == Kind::Pred,
                stage: e.stage,
                uid: e.uid,
                extra: e.extra,
            })
            .collect();
        // "no element beyond the first match is evaluated": every call made is one the lazy std chain makes too
        // (order and completeness of the calls before the match are C09's business)
        let mut allowed: std::collections::BTreeMap<MEv, usize> = Default::default();
        for e in &lazy.log {
            *allowed.entry(*e).or_default() += 1;
        }
        for e in &got {
            match allowed.get_mut(e) {
                Some(n) if *n > 0 => *n -= 1,
                _ => {
                    v.fail = Some(Verdict::fail(
                        format!(
                            "sequential mode evaluated {} closure calls, the lazy std chain {}: a call beyond the first match (stage {}, predicate: {})",
                            got.len(),
                            lazy.log.len(),
                            e.stage,
                            e.pred
                        ),
                        generic_sig(case, "seq-evaluates-beyond-match"),
                    ));
                    return v;
                }
            }
        }
        v.nontrivial = lazy.found.map(|x| x.1 + 1 < src.len() || endless).unwrap_or(false) && !case.chain.is_empty();
        return v;
    }
    // ---- parallel clause, exact under the scheduler
    let decisive = decisive_events(case, &r);
    let Some(first) = decisive.first() else {
        v.label("no decisive closure event (first() on a bare source / no match)");
        return v;
    };
    // position of t* in the log
    let t_star = r.log.iter().position(|e| std::ptr::eq(e, *first)).expect("event is in the log");
    let finder = first.tid;
    let rs = runs(&r.log);
    let run = rs.iter().find(|x| x.begin <= t_star && t_star <= x.end);
    let chunk_of = |tid: u16| -> usize {
        run.and_then(|x| x.workers.iter().find(|w| w.0 == tid).map(|w| w.1)).unwrap_or(usize::MAX)
    };
    let first_closure_is_stage0 = !case.chain.is_empty();
    let mut per_tid: std::collections::BTreeMap<u16, usize> = Default::default();
    let mut finder_after = 0usize;
    let mut asked_after = 0usize;
    for e in &r.log[t_star + 1..] {
        if e.kind.is_closure() && e.tid == finder && e.tid != 0 {
            finder_after += 1;
        }
        let is_first = if first_closure_is_stage0 {
            e.kind == Kind::Stage && e.stage == 0
        } else {
            e.kind == Kind::Pred
        };
        if is_first && e.tid != finder {
            *per_tid.entry(e.tid).or_default() += 1;
        }
        if e.kind == Kind::SrcEnter {
            asked_after += 1;
        }
    }
    let max_after = per_tid.values().copied().max().unwrap_or(0);
    v.label(format!("max elements another thread started after the match: {}", bucket(max_after)));
    let (t_res, _) = resolved_threads_chunk(case);
    if r.sched.revoked > 0 {
        // two threads ran at the same time for a while (a park inside Drop was revoked): the bound below is exact only
        // for one-thread-at-a-time schedules
        v.label("revoked park: exact bound not asserted");
    }
    if case.is_sched() && r.sched.revoked == 0 {
        // "a constant number of chunks per thread": after the first match in time a thread may finish the chunk it holds and
        // start at most EXTRA_CHUNKS more (the pinned tree starts none; the statement allows any constant, so a small one is
        // allowed here - what must not happen is work that grows with the remaining input, which the budget of the endless
        // source and the metamorphic run below decide)
        const EXTRA_CHUNKS: usize = 4;
        let finder_started = r.log[t_star + 1..]
            .iter()
            .filter(|e| {
                e.tid == finder
                    && e.tid != 0
                    && if first_closure_is_stage0 {
                        e.kind == Kind::Stage && e.stage == 0
                    } else {
                        e.kind == Kind::Pred
                    }
            })
            .count();
        let _ = finder_after;
        let mut all = per_tid.clone();
        if finder != 0 {
            all.insert(finder, finder_started);
        }
        for (tid, n) in &all {
            let c = chunk_of(*tid);
            if c != usize::MAX && *n > c.saturating_mul(1 + EXTRA_CHUNKS) {
                v.fail = Some(Verdict::fail(
                    format!(
                        "after a match was known thread {tid} still started {n} source elements; its chunk size is {c} (allowed: the rest of the chunk it holds and {EXTRA_CHUNKS} more chunks)"
                    ),
                    generic_sig(case, "work-after-match"),
                ));
                return v;
            }
        }
        let max_chunk = run.map(|x| x.workers.iter().map(|w| w.1).max().unwrap_or(1)).unwrap_or(1);
        let ask_bound = t_res.saturating_mul(max_chunk).saturating_mul(1 + EXTRA_CHUNKS);
        if case.source.is_instrumented_iter() && asked_after > ask_bound {
            v.fail = Some(Verdict::fail(
                format!("after a match was known the source iterator was asked {asked_after} more times (bound {ask_bound} = threads x chunk x {})", 1 + EXTRA_CHUNKS),
                generic_sig(case, "pulls-after-match"),
            ));
            return v;
        }
        // metamorphic: far more remaining input must not change anything
        if let Source::Endless { budget } = case.source {
            let mut c2 = case.clone();
            c2.source = Source::Endless {
                budget: budget.saturating_mul(50).max(budget.saturating_add(100_000)),
            };
            let r2 = run_case(&c2);
            v.extra_runs += 1;
            if r2.log.len() != r.log.len() || r2.src_nexts != r.src_nexts || r2.out.as_ref().ok() != r.out.as_ref().ok() {
                v.fail = Some(Verdict::fail(
                    format!(
                        "the work done depends on how much input remains: {} events / {} pulls with budget {}, {} events / {} pulls with a 50x longer tail",
                        r.log.len(),
                        r.src_nexts,
                        budget,
                        r2.log.len(),
                        r2.src_nexts
                    ),
                    generic_sig(case, "work-depends-on-tail"),
                ));
                return v;
            }
        }
    }
    let evaluators_before: std::collections::BTreeSet<u16> = r.log[from..t_star].iter().filter(|e| e.kind.is_closure() && e.tid != 0).map(|e| e.tid).collect();
    let (_, c_res) = resolved_threads_chunk(case);
    let match_pos = lazy.found.map(|x| x.1).unwrap_or(0);
    v.nontrivial = match_pos >= c_res.saturating_mul(2) && evaluators_before.len() >= 2;
    if endless {
        v.label("endless source");
    }
    v
}

fn bucket(n: usize) -> &'static str {
    match n {
        0 => "0",
        1 => "1",
        2..=4 => "2-4",
        5..=16 => "5-16",
        _ => "17+",
    }
}

pub fn c10() -> PropDef {
    PropDef {
        id: "C10",
        rule: "cases: proptest over (endless or long by-value iterator / Vec source, one-pass chain, params incl. num_threads(1), find|first|any|all, mode) with the first match planted at a generated position and further matches after it; scheduled mode decides the bound (no closure call by the finder after the first match-in-time, every other thread starts at most chunk-size further elements, iterator asked <= threads x chunk more, identical work with a 50x longer tail), free mode decides termination on an endless source (budget 300k, three consecutive trips required), sequential mode must equal the lazy std evaluation log; non-trivial: first match at source position >= 2 x chunk and >=2 workers evaluating before it was found (parallel) / input remains after the match and chain non-empty (sequential); distinct by case hash",
        free: mk_free(|c| {
            c.src = SrcClass::Deep;
            c.terms = vec![TermClass::ShortCircuit];
            c.max_len = 3000;
            c.chunk = ChunkCfg::Any { big: 64 };
        }),
        sched: mk_sched(|c| {
            c.src = SrcClass::Deep;
            c.terms = vec![TermClass::ShortCircuit];
            c.max_len = 64;
            c.threads = ThreadsCfg::MaxN(8);
        }),
        quick: (1500, 4500),
        thorough: (9000, 20000),
        dense: no_dense,
        check: check_c10,
        adjust: adjust_c10_entry,
        assumptions: COMMON_ASSUMPTIONS,
        tiny: || {
            tiny_cases(
                &[Term::Find { mask: 0x0006 }, Term::First],
                &[&[StageKind::Filter], &[StageKind::Map]],
                &[&[0, 0, 1, 0, 2, 0], &[3, 1, 0, 0]],
            )
        },
        long: None,
        growth: None,
    }
}

/// half of the generated iterator-backed cases become endless sources
fn adjust_c10_entry(mut case: Case) -> Case {
    if let Source::Iter { hint } = case.source {
        if hint != Hint::Exact {
            case.source = Source::Endless { budget: 0 };
        }
    }
    adjust_c10(case)
}
