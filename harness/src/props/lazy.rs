//! C16 laziness: nothing runs before the terminal call.

use super::*;
use crate::analysis::runs;
use crate::known;
use crate::run::max_depth;

pub fn eager_sig(ty_before: &str, step: &str) -> String {
    format!("eager|{}.{}", ty_before, step)
}

fn check_c16(case: &Case) -> Verdict {
    let (r, m) = match run_basic(case) {
        Ok(x) => x,
        Err(v) => return v,
    };
    let mut v = Verdict::default();
    v.label(format!("src:{}", source_name(case.source)));
    v.label(format!("shape:{}", if case.chain.is_empty() { "-".to_string() } else { case.shape() }));
    // work observed between construction steps
    let mut eager_steps: Vec<(String, String)> = vec![];
    let mut prev_calls = 0u64;
    let mut prev_nexts = 0u64;
    let mut prev_ty = String::from("-");
    for s in &r.snaps {
        if s.closure_calls > prev_calls || s.src_nexts > prev_nexts {
            let sig = eager_sig(&prev_ty, s.step);
            let msg = format!(
                "`{}` on a {} ran {} user closure calls and consumed {} source elements at construction time",
                s.step,
                prev_ty,
                s.closure_calls - prev_calls,
                s.src_nexts - prev_nexts
            );
            eager_steps.push((sig, msg));
        }
        prev_calls = s.closure_calls;
        prev_nexts = s.src_nexts;
        prev_ty = s.ty.clone();
        if s.step != "src" && s.step != "threads" && s.step != "chunk" {
            v.label(format!("pair:{}", s.ty));
        }
    }
    // also anything between the last step and the terminal call
    if let Some(e) = r.log[..r.term_start.min(r.log.len())].iter().find(|e| e.kind.is_closure() || e.kind == Kind::SrcEnter) {
        if eager_steps.is_empty() {
            eager_steps.push((
                "eager|unattributed".into(),
                format!("a {:?} event happened before the terminal call", e.kind),
            ));
        }
    }
    if !eager_steps.is_empty() {
        // an unlisted pair wins over listed ones
        let pick = eager_steps
            .iter()
            .find(|(sig, _)| !known::is_open("C16", sig))
            .unwrap_or(&eager_steps[0]);
        v.fail = Some(Fail {
            msg: pick.1.clone(),
            sig: pick.0.clone(),
        });
        v.nontrivial = true;
        return v;
    }
    // everything ran inside the terminal call: under the parameters in effect at that call
    if case.is_sequential() {
        if let Some(e) = r.log.iter().find(|e| e.kind.is_closure() && e.tid != 0) {
            v.fail = Some(Verdict::fail(
                format!("num_threads(1) in effect at the terminal call, but closure {:?} ran on thread {}", e.kind, e.tid),
                generic_sig(case, "params-at-terminal-ignored"),
            ));
            return v;
        }
        for s in 0..case.chain.len() as u8 {
            let got: Vec<u64> = r.log.iter().filter(|e| e.kind == Kind::Stage && e.stage == s).map(|e| e.uid).collect();
            let full = m.stage_args(s);
            // short-circuit terminals evaluate a prefix of the sequential order only
            let ok = if r.term.is_short_circuit() { got.len() <= full.len() && got[..] == full[..got.len()] } else { got == full };
            if !ok {
                v.fail = Some(Verdict::fail(format!("stage {s} not evaluated in sequential order inside the terminal"), generic_sig(case, "order")));
                return v;
            }
        }
    }
    // ... "under the parameters in effect at that call": every run the terminal starts resolves them
    let (nt, cs) = case.final_params();
    for run in runs(&r.log).iter().filter(|x| x.begin >= r.term_start) {
        let chunk_ok = match cs {
            CsModel::Exact(c) => {
                let want = match run.input_len {
                    Some(len) => c.min(len.max(1)),
                    None => c,
                };
                run.exact && run.chunk == want
            }
            CsModel::Min(_) | CsModel::Auto => !run.exact,
        };
        let threads_ok = match nt {
            NtModel::Max(n) => run.max_num_threads <= n,
            NtModel::Auto => true,
        };
        if !chunk_ok || !threads_ok {
            v.fail = Some(Verdict::fail(
                format!(
                    "the terminal ran with {}({}) and at most {} threads although the parameters in effect at the call are {:?} / {:?}",
                    if run.exact { "Exact" } else { "Min" },
                    run.chunk,
                    run.max_num_threads,
                    nt,
                    cs
                ),
                generic_sig(case, "params-at-terminal-ignored"),
            ));
            return v;
        }
    }
    v.nontrivial = !case.chain.is_empty();
    v
}

fn dense_c16(thorough: bool, _seed: u64) -> Vec<Case> {
    let sources = [
        Source::VecOwned,
        Source::Iter { hint: Hint::Exact },
        Source::Iter { hint: Hint::Zero },
        Source::VecRef,
        Source::SliceIntoPar,
        Source::ArrayRef,
        Source::Range { start: 5 },
        Source::RangeIter { start: 0 },
        Source::ClonedSlice,
        Source::ParCloned,
        Source::NestedCloned,
        Source::NestedCopied { start: 2 },
        Source::Coll { kind: Coll::VecDeque, by_ref: false },
        Source::Coll { kind: Coll::BTreeSet, by_ref: false },
        Source::Coll { kind: Coll::HashSet, by_ref: true },
        Source::Coll { kind: Coll::LinkedList, by_ref: false },
        Source::Coll { kind: Coll::BinaryHeap, by_ref: true },
        Source::Coll { kind: Coll::BTreeMap, by_ref: true },
        Source::Coll { kind: Coll::HashMap, by_ref: false },
    ];
    let mut out = vec![];
    let mut k = 0u32;
    for source in sources {
        for kinds in all_shapes(max_depth(source)) {
            let n = kinds.len();
            // parameter operations at every position, a final num_threads(1) in half of the cases
            for ppos in 0..=n {
                for final_seq in [true, false] {
                    k += 1;
                    if !thorough && !matches!(source, Source::VecOwned | Source::Iter { hint: Hint::Zero }) && k % 3 != 0 {
                        continue;
                    }
                    let mut params = vec![p_threads(ppos as u8, 2 + (k as usize % 3)), p_chunk(((ppos + 1) % (n + 1)) as u8, Cs::Exact(1 + k as usize % 3))];
                    if final_seq {
                        params.push(p_threads(n as u8, 1));
                    }
                    out.push(Case {
                        source,
                        input: det_input(if matches!(source, Source::ArrayRef) { 6 } else { 25 }, 0xC16 ^ k as u64),
                        chain: chain_of(&kinds, k),
                        params,
                        term: if k % 2 == 0 { Term::Count } else { Term::CollectVec },
                        mode: free_mode(k),
                        faults: vec![],
                    });
                }
            }
        }
    }
    out
}

pub fn c16() -> PropDef {
    PropDef {
        id: "C16",
        rule: "cases: every chain shape up to the depth instantiated per source (85 on Vec / by-value iterator sources: all 8 x 4 (type, transformation) pairs; 21 / 5 on the other 14 source kinds) x parameter operations at every position x {with, without} a final num_threads(1) + proptest over random chains; oracle: closure-call and source-consumption counters sampled after every single construction step stay 0 until the terminal call (a failure is attributed to the (type before, transformation) pair, the type name being read from the real object); with a final num_threads(1) every closure call is on the calling thread, in sequential order, inside the terminal; the value is checked too; non-trivial: chain length >= 1; distinct by case hash; exhaustive: the enumerated part is complete for its stated finite domain",
        free: mk_free(|c| {
            c.max_len = 60;
            c.terms = vec![TermClass::Collect, TermClass::Count, TermClass::ReduceFamily, TermClass::ShortCircuit];
        }),
        sched: None,
        quick: (5000, 0),
        thorough: (30000, 0),
        dense: dense_c16,
        check: check_c16,
        adjust: no_adjust,
        assumptions: COMMON_ASSUMPTIONS,
        tiny: no_tiny,
        long: None,
        growth: None,
    }
}
