//! C13 drop exactly once on non-panicking paths; C14 panicking closures.

use super::*;
use crate::run::term_supported;

fn drop_fail(case: &Case, r: &RunResult, allow_leak: bool) -> Option<Fail> {
    let d = r.drops;
    let path = format!("{}|{}|{}", case.shape(), source_name(case.source), r.term.name());
    if d.bad_canary > 0 {
        return Some(Verdict::fail(
            format!("{} drops of never-initialised (or already scrubbed) memory", d.bad_canary),
            format!("drop-of-garbage|{path}"),
        ));
    }
    if d.double > 0 {
        return Some(Verdict::fail(format!("{} values were dropped twice", d.double), format!("double-drop|{path}")));
    }
    if !allow_leak && d.live > 0 {
        return Some(Verdict::fail(
            format!("{} of {} values were never dropped (leak)", d.live, d.created),
            format!("leak|{path}"),
        ));
    }
    None
}

fn move_path(case: &Case, r: &RunResult) -> &'static str {
    let filtering = case.chain.iter().any(|s| s.kind != StageKind::Map);
    match &r.term {
        Term::CollectVec | Term::Collect | Term::CollectInto { .. } => {
            if case.chain.is_empty() {
                "path:sequential collect of a bare source"
            } else if filtering {
                "path:k-way merge of per-thread vectors"
            } else {
                "path:ordered bag positional writes"
            }
        }
        Term::CollectX => "path:fragments appended",
        t if t.is_short_circuit() => "path:early exit with untouched remainder",
        t if t.is_reduce_family() => "path:reduce accumulators",
        _ => "path:count/for_each (values consumed)",
    }
}

fn check_c13(case: &Case) -> Verdict {
    let (r, m) = match run_basic(case) {
        Ok(x) => x,
        Err(v) => return v,
    };
    let mut v = Verdict::default();
    common_labels(case, &r, &mut v);
    v.label(move_path(case, &r));
    if let Some(f) = drop_fail(case, &r, false) {
        v.fail = Some(f);
        return v;
    }
    // (the value is not part of this property: a wrong result with correct drop accounting is C01..C07's business)
    if r.term.is_short_circuit() {
        let consumed = r.log.iter().filter(|e| e.kind == Kind::Stage && e.stage == 0).count();
        if consumed < m.src.len() && !case.chain.is_empty() {
            v.label("early exit left part of the source untouched");
        }
    }
    v.nontrivial = !case.is_sequential() && busy_workers(&r.log, 0) >= 2 && r.drops.created > 0;
    v
}

fn dense_c13(thorough: bool, _seed: u64) -> Vec<Case> {
    let mut terms = vec![
        Term::CollectVec,
        Term::Collect,
        Term::CollectX,
        Term::Count,
        Term::Reduce { op: RedOp::Add },
        Term::MinByKey,
        Term::Find { mask: 0x0100 },
        Term::First,
        Term::ForEach,
        Term::Any { mask: 0x0001 },
    ];
    for target in [Target::Vec, Target::SplitDoubling, Target::SplitLinear, Target::Fixed] {
        terms.push(Term::CollectInto {
            target,
            prefix: vec![1, 2, 3],
            spare: 2,
        });
    }
    let mut out = vec![];
    let mut k = 0u32;
    for kinds in all_shapes(3) {
        for source in [Source::VecOwned, Source::Iter { hint: Hint::Zero }, Source::Iter { hint: Hint::Exact }] {
            for term in &terms {
                k += 1;
                if !term_supported(source, kinds.len(), term) {
                    continue;
                }
                if !thorough && k % 3 != 0 {
                    continue;
                }
                out.push(Case {
                    source,
                    input: det_input(45, 0xC13 ^ k as u64),
                    chain: chain_of(&kinds, k),
                    params: vec![p_threads(0, 2 + k as usize % 5), p_chunk(0, [Cs::Exact(1), Cs::Exact(3), Cs::Min(2), Cs::Auto][k as usize % 4])],
                    term: term.clone(),
                    mode: free_mode(k),
                    faults: vec![],
                });
            }
        }
    }
    out
}

pub fn c13() -> PropDef {
    PropDef {
        id: "C13",
        rule: "cases: owning sources (Vec, by-value iterators, std collections by value) of a drop-observing element type (per-instance state table + canary), closures that consume and create elements, filters that drop, flat_map with fan-out 0; proptest over (source, input, chain, params, every terminal incl. find on a prefix and collect_into non-empty targets of all kinds, mode) + 85 chain shapes x 3 sources x 14 terminals; oracle: after the call returned and the result was dropped every instance ever created is dropped exactly once (live = 0, double = 0, bad canary = 0) and the value equals the std model; non-trivial: parallel, >=2 busy workers, elements created; distinct by case hash",
        free: mk_free(|c| {
            c.src = SrcClass::Owning;
            c.terms = vec![
                TermClass::Collect,
                TermClass::CollectIntoPrefixed,
                TermClass::CollectX,
                TermClass::Count,
                TermClass::ForEach,
                TermClass::ReduceFamily,
                TermClass::ShortCircuit,
                TermClass::WithIndex,
            ];
        }),
        sched: mk_sched(|c| {
            c.src = SrcClass::Deep;
            c.terms = vec![
                TermClass::Collect,
                TermClass::CollectIntoPrefixed,
                TermClass::CollectX,
                TermClass::ReduceFamily,
                TermClass::ShortCircuit,
            ];
        }),
        quick: (10000, 1500),
        thorough: (70000, 9000),
        dense: dense_c13,
        check: check_c13,
        adjust: no_adjust,
        assumptions: COMMON_ASSUMPTIONS,
        tiny: no_tiny,
        long: Some(({ let mut c = GenCfg::long_sched(); c.terms = vec![TermClass::Collect, TermClass::CollectIntoPrefixed, TermClass::CollectX, TermClass::ShortCircuit]; c }, 300, 2000)),
        growth: Some(({ let mut c = GenCfg::growth_sched(); c.terms = vec![TermClass::Collect, TermClass::Collect, TermClass::CollectIntoPrefixed, TermClass::CollectX]; c }, 1200, 6000)),
    }
}

// ------------------------------------------------------------------------------------------------ C14

fn check_c14(case: &Case) -> Verdict {
    let r = run_case(case);
    let mut v = Verdict::default();
    if let Some(why) = unusable(&r) {
        v.skipped = Some(why);
        return v;
    }
    common_labels(case, &r, &mut v);
    v.label(move_path(case, &r));
    let raised = r.panics_raised > 0;
    let path = format!("{}|{}|{}", case.shape(), source_name(case.source), r.term.name());
    if raised {
        v.label("injected panic raised");
        if let Ok(o) = &r.out {
            v.fail = Some(Verdict::fail(
                format!("a closure panicked but the library call returned a value ({:?})", o),
                format!("panic-swallowed|{path}"),
            ));
            return v;
        }
        if let Some(f) = drop_fail(case, &r, true) {
            v.fail = Some(f);
            return v;
        }
        if r.drops.live > 0 {
            v.label("leak while unwinding (permitted)");
        }
        // other workers still had work when the panic was raised?
        if let Some(at) = r.first_panic_at {
            let panicker = r.log.get(at.saturating_sub(1)).map(|e| e.tid);
            let others_after = r.log[at.min(r.log.len())..]
                .iter()
                .any(|e| (e.kind.is_closure() || e.kind == Kind::SrcSome) && Some(e.tid) != panicker);
            if others_after {
                v.label("other workers kept working after the panic");
            }
            // position of the panicking element relative to the end of the input
            let m = model_for(case, &r);
            let total: usize = m.full_log.len();
            let done_before = r.log[..at.min(r.log.len())].iter().filter(|e| e.kind == Kind::Stage).count();
            if done_before + 8 < total {
                v.label("panic well before the end of the work");
            }
            v.nontrivial = !case.is_sequential() && others_after;
        }
    } else {
        v.label("fault site not reached");
        // nothing was injected: behaves like a normal run
        if let Some(f) = unexpected_panic(case, &r) {
            v.fail = Some(f);
            return v;
        }
        if let Some(f) = drop_fail(case, &r, false) {
            v.fail = Some(f);
            return v;
        }
    }
    v
}

fn dense_c14(thorough: bool, _seed: u64) -> Vec<Case> {
    use crate::obs::Site;
    // panic at first / middle / last chunk x each closure of the 21 chains of length <= 2 x collect / reduce / count
    let terms = [
        Term::CollectVec,
        Term::Collect,
        Term::CollectInto {
            target: Target::Fixed,
            prefix: vec![4, 4],
            spare: 1,
        },
        Term::CollectX,
        Term::Count,
        Term::Reduce { op: RedOp::Add },
    ];
    let mut out = vec![];
    let mut k = 0u32;
    for kinds in all_shapes(2) {
        if kinds.is_empty() {
            continue;
        }
        for source in [Source::VecOwned, Source::Iter { hint: Hint::Zero }] {
            for term in &terms {
                for stage in 0..kinds.len() as u8 {
                    for frac in [0u32, 1, 2] {
                        k += 1;
                        if !thorough && k % 2 == 0 {
                            continue;
                        }
                        // `Arg(i)`: the i-th argument the model feeds to that stage (modulo their number)
                        let at = match frac {
                            0 => At::Arg(0),
                            1 => At::Arg(0x4000_0000 + k),
                            _ => At::Nth(60 + k % 40),
                        };
                        out.push(Case {
                            source,
                            input: det_input(200, 0xC14 ^ k as u64),
                            chain: chain_of(&kinds, k)
                                .into_iter()
                                .map(|mut s| {
                                    s.mask |= 0x7fff;
                                    s.fan = s.fan.max(1);
                                    s
                                })
                                .collect(),
                            params: vec![p_threads(0, 4), p_chunk(0, [Cs::Exact(16), Cs::Exact(1), Cs::Min(4)][k as usize % 3])],
                            term: term.clone(),
                            mode: free_mode(k),
                            faults: vec![Fault {
                                site: Site::Stage(stage),
                                at,
                            }],
                        });
                    }
                }
            }
        }
    }
    out
}

pub fn c14() -> PropDef {
    PropDef {
        id: "C14",
        rule: "cases (fault injection): a panic is injected into a generated closure (any stage, predicate, reduce operator, key/compare function, for_each body) at a generated call (n-th call overall, or on the i-th argument the sequential model feeds to that closure), optionally a second one; proptest over (source, input, chain, params, every terminal and collect target, mode - scheduled mode keeps the other workers writing while one unwinds) + 20 chain shapes x 2 sources x 6 terminals x each stage x {first, middle, late} element; every case runs in a child process of the checker; oracle: if the injected panic was raised, catch_unwind of the library call is Err (never a value), the process neither aborts nor hangs, and after unwinding no value was dropped twice and no never-initialised value was dropped (leaks permitted and counted); non-trivial: the panic was raised in a parallel run and another thread still did work afterwards; distinct by case hash",
        free: mk_free(|c| {
            c.max_faults = 2;
            c.force_fault = true;
            c.max_len = 1200;
            c.terms = vec![
                TermClass::Collect,
                TermClass::Collect,
                TermClass::CollectIntoPrefixed,
                TermClass::CollectX,
                TermClass::Count,
                TermClass::ForEach,
                TermClass::ReduceFamily,
                TermClass::ShortCircuit,
            ];
        }),
        sched: mk_sched(|c| {
            c.max_faults = 2;
            c.force_fault = true;
            c.src = SrcClass::Deep;
            c.terms = vec![
                TermClass::Collect,
                TermClass::Collect,
                TermClass::CollectIntoPrefixed,
                TermClass::CollectX,
                TermClass::Count,
                TermClass::ReduceFamily,
                TermClass::ShortCircuit,
            ];
        }),
        quick: (9000, 2400),
        thorough: (60000, 12000),
        dense: dense_c14,
        check: check_c14,
        adjust: no_adjust,
        assumptions: COMMON_ASSUMPTIONS,
        tiny: no_tiny,
        long: None,
        growth: None,
    }
}
