//! Runs one case against orx-parallel and collects everything the oracles look at.

use crate::case::*;
use crate::chain::*;
use crate::elem::*;
use crate::model;
use crate::obs::{self, ArmedFault, CaseSwitches, Ev};
use crate::sched::{self, SchedReport};
use orx_concurrent_iter::{ConcurrentIterable, IntoCloned};
use orx_parallel::prelude::*;
use std::cell::{Cell, RefCell};
use std::collections::{BTreeMap, BTreeSet, BinaryHeap, HashMap, HashSet, LinkedList, VecDeque};
use std::panic::{catch_unwind, AssertUnwindSafe};
use std::sync::atomic::{AtomicBool, Ordering};

static TRIPPED: AtomicBool = AtomicBool::new(false);

/// scheduling decisions of the most recent runs (read by the exhaustive schedule enumerator)
pub static LAST_DECISIONS: std::sync::Mutex<Vec<Vec<(u8, u8)>>> = std::sync::Mutex::new(Vec::new());

/// Instrumented by-value source iterator.
pub struct SrcIter {
    finite: Option<std::vec::IntoIter<E>>,
    /// one period of values (endless mode)
    period: Vec<u32>,
    pos: usize,
    hint: Hint,
    budget: usize,
}
impl SrcIter {
    pub fn finite(vals: &[V], hint: Hint) -> Self {
        let items: Vec<E> = vals.iter().map(|v| E::new(*v)).collect();
        SrcIter {
            finite: Some(items.into_iter()),
            period: vec![],
            pos: 0,
            hint,
            budget: usize::MAX,
        }
    }
    pub fn endless(vals: &[V], budget: usize) -> Self {
        SrcIter {
            finite: None,
            period: vals.iter().map(|v| v.val).collect(),
            pos: 0,
            hint: Hint::Zero,
            budget,
        }
    }
}
impl Iterator for SrcIter {
    type Item = E;
    fn next(&mut self) -> Option<E> {
        obs::src_enter();
        sched::src_yield_point();
        let r = match &mut self.finite {
            Some(it) => it.next(),
            None => {
                if self.pos >= self.budget || self.period.is_empty() {
                    if !self.period.is_empty() {
                        TRIPPED.store(true, Ordering::SeqCst);
                    }
                    None
                } else {
                    let p = self.pos;
                    Some(E::new(V {
                        uid: root_uid(p),
                        val: self.period[p % self.period.len()],
                    }))
                }
            }
        };
        self.pos += 1;
        obs::src_exit(r.as_ref().map(|e| e.v().uid));
        r
    }
    fn size_hint(&self) -> (usize, Option<usize>) {
        match &self.finite {
            None => (0, None),
            Some(it) => {
                let rem = it.len();
                match self.hint {
                    Hint::Exact => (rem, Some(rem)),
                    Hint::Zero => (0, None),
                    Hint::Lower => (rem / 2, None),
                    Hint::Loose => (rem / 2, Some(2 * rem + 1)),
                }
            }
        }
    }
}

#[derive(Clone, Debug, serde::Serialize)]
pub enum Panicked {
    /// payload was one of the harness' injected panics
    Injected,
    /// some other panic (message)
    Other(String),
}

pub struct RunResult {
    pub term: Term,
    pub out: Result<Out, Panicked>,
    pub snaps: Vec<Snap>,
    pub log: Vec<Ev>,
    /// log length when the terminal call started (events before it happened during construction)
    pub term_start: usize,
    pub drops: DropStats,
    pub sched: SchedReport,
    pub tripped: bool,
    pub src_reentries: u64,
    pub src_nexts: u64,
    pub max_in_closure: u32,
    pub panics_raised: u32,
    pub first_panic_at: Option<usize>,
    pub log_overflow: bool,
    /// iteration order of the source instance (std collections)
    pub src_order: Option<Vec<V>>,
}

/// maximal chain length supported for a source kind (bounded to keep monomorphisation affordable)
pub fn max_depth(src: Source) -> usize {
    match src {
        Source::VecOwned | Source::Iter { .. } | Source::Endless { .. } => 3,
        Source::VecRef | Source::SliceRef { .. } | Source::SliceIntoPar | Source::Range { .. } => 2,
        Source::ArrayRef | Source::RangeIter { .. } | Source::ClonedSlice | Source::ParCloned => 1,
        Source::NestedCloned | Source::NestedCopied { .. } => 1,
        Source::Coll { .. } => 1,
    }
}

/// which terminals are instantiated for a source kind at a chain length
pub fn term_supported(src: Source, chain_len: usize, term: &Term) -> bool {
    let core = matches!(
        term,
        Term::CollectVec | Term::CollectX | Term::Count | Term::Reduce { .. } | Term::Find { .. } | Term::ParamsOnly
    );
    let lite = core
        || matches!(
            term,
            Term::CollectInto { target: Target::Vec, .. } | Term::ForEach | Term::First | Term::Any { .. }
        );
    let full = !matches!(term, Term::FindIdx { .. } | Term::FirstIdx);
    let set = match max_depth(src) {
        3 => [2, 2, 2, 1][chain_len.min(3)],
        2 => match src {
            Source::Range { .. } => [2, 1, 0][chain_len.min(2)],
            _ => [2, 2, 1][chain_len.min(2)],
        },
        _ => [1, 0][chain_len.min(1)],
    };
    match set {
        2 => full,
        1 => lite,
        _ => core,
    }
}

fn arm_faults(case: &Case, m: Option<&model::Model>) -> Vec<ArmedFault> {
    case.faults
        .iter()
        .map(|f| match f.at {
            At::Nth(n) => ArmedFault {
                site: f.site,
                nth: Some(n),
                uid: None,
            },
            At::Arg(i) => {
                let uid = match (f.site, m) {
                    (obs::Site::Stage(s), Some(m)) => {
                        let args = m.stage_args(s);
                        (!args.is_empty()).then(|| args[i as usize % args.len()])
                    }
                    (obs::Site::Pred | obs::Site::ForEach, Some(m)) => {
                        (!m.out.is_empty()).then(|| m.out[i as usize % m.out.len()].0.uid)
                    }
                    _ => None,
                };
                match uid {
                    Some(uid) => ArmedFault {
                        site: f.site,
                        nth: None,
                        uid: Some(uid),
                    },
                    // reduce operator / key / compare: the i-th call, modulo the number of calls a reduction of the
                    // model's output needs at least
                    None => ArmedFault {
                        site: f.site,
                        nth: Some(i % (m.map(|m| m.out.len()).unwrap_or(1).max(2) as u32 - 1)),
                        uid: None,
                    },
                }
            }
        })
        .collect()
}

fn dispatch(case: &Case, rc: &Rc, src: &[V]) -> Out {
    let mk = || -> Vec<E> { src.iter().map(|v| E::new(*v)).collect() };
    match case.source {
        Source::VecOwned => start::<D3, _>(mk().into_par(), rc),
        Source::VecRef => {
            let data = mk();
            start::<D2, _>(data.par(), rc)
        }
        Source::SliceRef { .. } => {
            // `src` already is the sub-slice's content
            let data = mk();
            let s: &[E] = &data[..];
            start::<D2, _>(s.par(), rc)
        }
        Source::SliceIntoPar => {
            let data = mk();
            let s: &[E] = &data[..];
            start::<D2, _>(s.into_par(), rc)
        }
        Source::ArrayRef => {
            let mut it = mk().into_iter();
            let arr: [E; 6] = std::array::from_fn(|_| it.next().expect("six elements"));
            start::<D1, _>(arr.par(), rc)
        }
        Source::Range { start: s } => {
            let s = s as usize;
            start::<D2L, _>((s..s + src.len()).into_par(), rc)
        }
        Source::RangeIter { start: s } => {
            let s = s as usize;
            start::<D1, _>((s..s + src.len()).par(), rc)
        }
        Source::ClonedSlice => {
            let data = mk();
            start::<D1, _>(data.con_iter().cloned().into_par(), rc)
        }
        Source::ParCloned => {
            let data = mk();
            start::<D1, _>(data.par().cloned(), rc)
        }
        Source::NestedCloned => {
            let mut flat = mk().into_iter();
            let nested: Vec<Vec<E>> = model::nested_group_sizes(src.len()).into_iter().map(|g| flat.by_ref().take(g).collect()).collect();
            let p = nested
                .par()
                .flat_map(|v: &Vec<E>| {
                    obs::src_flat_call(v.len() as u64);
                    v.iter()
                })
                .cloned();
            start::<D1, _>(p, rc)
        }
        Source::NestedCopied { .. } => {
            let mut flat = src.iter().map(|v| v.uid as usize);
            let nested: Vec<Vec<usize>> = model::nested_group_sizes(src.len()).into_iter().map(|g| flat.by_ref().take(g).collect()).collect();
            let p = nested
                .par()
                .flat_map(|v: &Vec<usize>| {
                    obs::src_flat_call(v.len() as u64);
                    v.iter()
                })
                .copied();
            start::<D1, _>(p, rc)
        }
        Source::Iter { hint } => start::<D3, _>(SrcIter::finite(src, hint).par(), rc),
        Source::Endless { budget } => start::<D3, _>(SrcIter::endless(src, budget as usize).par(), rc),
        Source::Coll { kind, by_ref } => {
            macro_rules! coll {
                ($c:expr, $view:expr) => {{
                    let c = $c;
                    *rc.src_order.borrow_mut() = Some(c.iter().map($view).collect());
                    if by_ref {
                        start::<D1, _>(c.par(), rc)
                    } else {
                        start::<D1, _>(c.into_par(), rc)
                    }
                }};
            }
            match kind {
                Coll::VecDeque => coll!(mk().into_iter().collect::<VecDeque<E>>(), |e: &E| e.v()),
                Coll::LinkedList => coll!(mk().into_iter().collect::<LinkedList<E>>(), |e: &E| e.v()),
                Coll::BTreeSet => coll!(mk().into_iter().collect::<BTreeSet<E>>(), |e: &E| e.v()),
                Coll::HashSet => coll!(mk().into_iter().collect::<HashSet<E>>(), |e: &E| e.v()),
                Coll::BinaryHeap => coll!(mk().into_iter().collect::<BinaryHeap<E>>(), |e: &E| e.v()),
                Coll::BTreeMap => coll!(
                    mk().into_iter().enumerate().map(|(i, e)| (i as u32, e)).collect::<BTreeMap<u32, E>>(),
                    |x: (&u32, &E)| x.1.v()
                ),
                Coll::HashMap => coll!(
                    mk().into_iter().enumerate().map(|(i, e)| (i as u32, e)).collect::<HashMap<u32, E>>(),
                    |x: (&u32, &E)| x.1.v()
                ),
            }
        }
    }
}

/// Concrete shapes that expose `find_with_index` / `first_with_index`.
fn run_with_index(case: &Case, rc: &Rc, src: &[V]) -> Out {
    fn conv(r: Option<(usize, E)>) -> Out {
        Out::OptIdx(r.map(|(i, e)| (i, e.v())))
    }
    macro_rules! shapes {
        ($base:expr) => {{
            let base = $base;
            snap(&base, "src", 0, rc);
            let base = apply_params(base, 0, rc);
            let c = &case.chain;
            let kinds: Vec<StageKind> = c.iter().map(|s| s.kind).collect();
            use StageKind::*;
            macro_rules! fin {
                ($p:expr) => {{
                    let p = apply_params($p, c.len(), rc);
                    rc.term_start.set(obs::log_len());
                    match &rc.term {
                        Term::FindIdx { mask } => conv(p.find_with_index(mk_pred(*mask))),
                        Term::FirstIdx => conv(p.first_with_index()),
                        _ => Out::Unsupported,
                    }
                }};
            }
            match kinds.as_slice() {
                [] => fin!(base),
                [Map] => fin!(base.map(mk_map::<E>(c[0], 0))),
                [Map, Map] => {
                    let p = base.map(mk_map::<E>(c[0], 0));
                    let p = apply_params(p, 1, rc);
                    fin!(p.map(mk_map::<E>(c[1], 1)))
                }
                [Filter] => fin!(base.filter(mk_filter::<E>(c[0], 0))),
                [Filter, Filter] => {
                    let p = base.filter(mk_filter::<E>(c[0], 0));
                    let p = apply_params(p, 1, rc);
                    fin!(p.filter(mk_filter::<E>(c[1], 1)))
                }
                [Map, Filter] => {
                    let p = base.map(mk_map::<E>(c[0], 0));
                    let p = apply_params(p, 1, rc);
                    fin!(p.filter(mk_filter::<E>(c[1], 1)))
                }
                [Map, Filter, Filter] => {
                    let p = base.map(mk_map::<E>(c[0], 0));
                    let p = apply_params(p, 1, rc);
                    let p = p.filter(mk_filter::<E>(c[1], 1));
                    let p = apply_params(p, 2, rc);
                    fin!(p.filter(mk_filter::<E>(c[2], 2)))
                }
                _ => Out::Unsupported,
            }
        }};
    }
    match case.source {
        Source::VecOwned => shapes!(src.iter().map(|v| E::new(*v)).collect::<Vec<E>>().into_par()),
        Source::Iter { hint } => shapes!(SrcIter::finite(src, hint).par()),
        Source::Endless { budget } => shapes!(SrcIter::endless(src, budget as usize).par()),
        _ => Out::Unsupported,
    }
}

/// chain shapes for which the with_index terminals exist
pub fn with_index_shape_ok(chain: &[Stage]) -> bool {
    use StageKind::*;
    let kinds: Vec<StageKind> = chain.iter().map(|s| s.kind).collect();
    matches!(
        kinds.as_slice(),
        [] | [Map] | [Map, Map] | [Filter] | [Filter, Filter] | [Map, Filter] | [Map, Filter, Filter]
    )
}

/// Runs the case. Never panics because of the library: panics of the terminal are caught and reported.
pub fn run_case(case: &Case) -> RunResult {
    let term = model::effective_term(case);
    let src = model::source_values(case);
    let needs_model = case.faults.iter().any(|f| matches!(f.at, At::Arg(_)));
    let m = needs_model.then(|| model::full(case));
    let faults = arm_faults(case, m.as_ref());

    reset_drops();
    TRIPPED.store(false, Ordering::SeqCst);
    let (spin_seed, spin_max, src_spin) = match &case.mode {
        Mode::Free {
            spin_seed,
            spin_max,
            src_spin,
        } => (*spin_seed, *spin_max, *src_spin),
        Mode::Sched(_) => (0, 0, 0),
    };
    set_drop_perturbation(if spin_max > 0 && spin_seed & 1 == 1 { spin_seed | 1 } else { 0 });
    obs::reset(CaseSwitches {
        spin_seed,
        spin_max,
        src_spin,
        faults,
    });
    sched::begin_case(match &case.mode {
        Mode::Sched(s) => Some(s),
        Mode::Free { .. } => None,
    });

    let rc = Rc {
        case,
        term: term.clone(),
        ops: case.ordered_params(),
        snaps: RefCell::new(vec![]),
        term_start: Cell::new(0),
        src_order: RefCell::new(None),
    };
    let with_index = matches!(term, Term::FindIdx { .. } | Term::FirstIdx);
    let result = catch_unwind(AssertUnwindSafe(|| {
        if with_index {
            run_with_index(case, &rc, &src)
        } else {
            dispatch(case, &rc, &src)
        }
    }));
    let sched_rep = sched::end_case();
    {
        let mut l = LAST_DECISIONS.lock().unwrap_or_else(|e| e.into_inner());
        if l.len() < 8 {
            l.push(sched_rep.decisions.clone());
        }
    }
    let out = match result {
        Ok(o) => Ok(o),
        Err(payload) => {
            if payload.downcast_ref::<obs::Injected>().is_some() {
                Err(Panicked::Injected)
            } else if let Some(s) = payload.downcast_ref::<String>() {
                Err(Panicked::Other(s.clone()))
            } else if let Some(s) = payload.downcast_ref::<&str>() {
                Err(Panicked::Other(s.to_string()))
            } else {
                Err(Panicked::Other("<non-string panic payload>".into()))
            }
        }
    };
    let log = obs::snapshot();
    let src_order = rc.src_order.borrow_mut().take();
    RunResult {
        src_order,
        term,
        out,
        snaps: rc.snaps.into_inner(),
        term_start: rc.term_start.get(),
        log,
        drops: drop_stats(),
        sched: sched_rep,
        tripped: TRIPPED.load(Ordering::SeqCst),
        src_reentries: obs::src_reentries(),
        src_nexts: obs::src_nexts(),
        max_in_closure: obs::max_in_closure(),
        panics_raised: obs::panics_raised(),
        first_panic_at: obs::first_panic_at(),
        log_overflow: obs::log_overflowed(),
    }
}
