//! Entry point shared by the cargo-fuzz targets: decode, run the property's oracle, report.

use crate::bytes::{decode, FuzzProfile};
use crate::known;
use crate::props::{self, PropDef};
use std::sync::OnceLock;

static DEFS: OnceLock<Vec<PropDef>> = OnceLock::new();

pub fn one(data: &[u8], profile: FuzzProfile, prop: &str) {
    let defs = DEFS.get_or_init(|| {
        known::load(&std::env::var("VERIF_KNOWN").unwrap_or_else(|_| "/verif/known_findings.json".into()));
        std::panic::set_hook(Box::new(|info| {
            if info.payload().downcast_ref::<crate::obs::Injected>().is_none() && std::env::var("VERIF_VERBOSE_PANICS").is_ok() {
                eprintln!("{info}");
            }
        }));
        props::all()
    });
    let def = defs.iter().find(|d| d.id == prop).expect("property exists");
    let case = (def.adjust)(decode(data, profile));
    let v = (def.check)(&case);
    if let Some(f) = v.fail {
        if known::is_open(prop, &f.sig) {
            return;
        }
        let dir = std::env::var("VERIF_REPLAY_DIR").unwrap_or_else(|_| "/verif/replays".into());
        let _ = std::fs::create_dir_all(format!("{dir}/{prop}"));
        let path = format!("{dir}/{prop}/fuzz-{:016x}.json", case.hash64());
        let body = serde_json::json!({
            "property": prop, "message": f.msg, "signature": f.sig, "phase": "libfuzzer", "profile": "fuzz",
            "case": serde_json::to_value(&case).unwrap(),
        });
        let _ = std::fs::write(&path, serde_json::to_string_pretty(&body).unwrap());
        println!("failure: {}", f.msg);
        println!("signature: {}", f.sig);
        println!("VIOLATION property={prop} replay={path}");
        std::process::abort();
    }
}
