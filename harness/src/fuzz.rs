//! Entry point shared by the cargo-fuzz targets: decode, run the property's oracle, report.

use crate::bytes::{decode, FuzzProfile};
use crate::known;
use crate::props::{self, PropDef};
use std::sync::OnceLock;

static DEFS: OnceLock<Vec<PropDef>> = OnceLock::new();

pub fn one(data: &[u8], profile: FuzzProfile, prop: &str) {
    let defs = DEFS.get_or_init(|| {
        known::load(&std::env::var("VERIF_KNOWN").unwrap_or_else(|_| "/verif/known_findings.json".into()));
        std::panic::set_hook(Box::new(|info| {
            if info.payload().downcast_ref::<crate::obs::Injected>().is_none() && std::env::var("VERIF_VERBOSE_PANICS").is_ok() {
                eprintln!("{info}");
            }
        }));
        props::all()
    });
    let def = defs.iter().find(|d| d.id == prop).expect("property exists");
    let case = (def.adjust)(decode(data, profile));
    let v = (def.check)(&case);
    stats(&case, v.nontrivial, v.skipped.is_some());
    if let Some(f) = v.fail {
        if known::is_open(prop, &f.sig) {
            return;
        }
        let dir = std::env::var("VERIF_REPLAY_DIR").unwrap_or_else(|_| "/verif/replays".into());
        let _ = std::fs::create_dir_all(format!("{dir}/{prop}"));
        let path = format!("{dir}/{prop}/fuzz-{:016x}.json", case.hash64());
        let body = serde_json::json!({
            "property": prop, "message": f.msg, "signature": f.sig, "phase": "libfuzzer", "profile": "fuzz",
            "case": serde_json::to_value(&case).unwrap(),
        });
        let _ = std::fs::write(&path, serde_json::to_string_pretty(&body).unwrap());
        println!("failure: {}", f.msg);
        println!("signature: {}", f.sig);
        println!("VIOLATION property={prop} replay={path}");
        std::process::abort();
    }
}

static STATS: std::sync::Mutex<(u64, u64, u64, Vec<String>)> = std::sync::Mutex::new((0, 0, 0, Vec::new()));

/// campaign counters, flushed to $VERIF_FUZZ_STATS every 500 executions (the fuzzer process ends without notice)
fn stats(case: &crate::case::Case, nontrivial: bool, skipped: bool) {
    let Ok(path) = std::env::var("VERIF_FUZZ_STATS") else { return };
    let mut s = STATS.lock().unwrap_or_else(|e| e.into_inner());
    s.0 += 1;
    if nontrivial {
        s.1 += 1;
        if s.3.len() < 3 {
            s.3.push(case.to_json());
        }
    }
    if skipped {
        s.2 += 1;
    }
    if s.0 % 100 == 0 || s.0 == 1 {
        let body = serde_json::json!({"executions": s.0, "nontrivial": s.1, "skipped": s.2, "samples": s.3});
        let _ = std::fs::write(&path, body.to_string());
    }
}

/// fuzz profile used for a property's target
pub fn profile_of(prop: &str) -> Option<FuzzProfile> {
    Some(match prop {
        "C01" => FuzzProfile::Collect,
        "C06" => FuzzProfile::CollectInto,
        "C07" => FuzzProfile::CollectX,
        "C13" => FuzzProfile::Drops,
        "C14" => FuzzProfile::Panics,
        _ => return None,
    })
}
