//! Turns a runtime chain description into the static `Par` type by type-level recursion, builds the instrumented
//! closures, runs the terminal, and returns plain values (`Out`) for the oracles.

use crate::case::*;
use crate::elem::*;
use crate::model::{fold_identity, Shape};
use crate::obs::{self, Kind, Site};
use orx_parallel::prelude::*;
use std::cell::{Cell, RefCell};
use std::marker::PhantomData;
use std::num::NonZeroUsize;

// ------------------------------------------------------------------------------------------------
// item kinds

pub trait Elem: Send + Sync + Sized {
    fn v(&self) -> V;
    /// arithmetic reduce operators supported?
    const ARITH: bool;
    fn combine(op: RedOp, a: Self, b: Self) -> Self;
    fn identity(_op: RedOp) -> Self {
        unreachable!("fold is normalised away for non-arithmetic items")
    }
    fn prefix(_i: usize, _val: u32) -> Option<Self> {
        None
    }
    fn t_sum<P: Par<Item = Self>>(_p: P) -> Self {
        unreachable!("sum is normalised away for non-arithmetic items")
    }
    fn t_min<P: Par<Item = Self>>(p: P) -> Option<Self> {
        p.min_by(|a, b| a.v().cmp(&b.v()))
    }
    fn t_max<P: Par<Item = Self>>(p: P) -> Option<Self> {
        // keep the documented tie behaviour out of the picture: keys are unique
        p.max_by(|a, b| a.v().cmp(&b.v()))
    }
}

fn pick<T: Elem>(op: RedOp, a: T, b: T) -> T {
    let (va, vb) = (a.v(), b.v());
    let r = combine_v(op, va, vb);
    if r == va {
        a
    } else {
        debug_assert!(r == vb);
        b
    }
}

impl Elem for E {
    fn v(&self) -> V {
        E::v(self)
    }
    const ARITH: bool = true;
    fn combine(op: RedOp, a: Self, b: Self) -> Self {
        match op {
            RedOp::Min | RedOp::Max => pick(op, a, b),
            _ => E::new(combine_v(op, a.v(), b.v())),
        }
    }
    fn identity(op: RedOp) -> Self {
        E::new(fold_identity(op))
    }
    fn prefix(i: usize, val: u32) -> Option<Self> {
        Some(E::new(V {
            uid: prefix_uid(i),
            val,
        }))
    }
    fn t_sum<P: Par<Item = Self>>(p: P) -> Self {
        p.sum()
    }
    fn t_min<P: Par<Item = Self>>(p: P) -> Option<Self> {
        p.min()
    }
    fn t_max<P: Par<Item = Self>>(p: P) -> Option<Self> {
        p.max()
    }
}

impl Elem for &E {
    fn v(&self) -> V {
        E::v(self)
    }
    const ARITH: bool = false;
    fn combine(op: RedOp, a: Self, b: Self) -> Self {
        let op = if op == RedOp::Max { RedOp::Max } else { RedOp::Min };
        pick(op, a, b)
    }
    fn t_min<P: Par<Item = Self>>(p: P) -> Option<Self> {
        p.min()
    }
    fn t_max<P: Par<Item = Self>>(p: P) -> Option<Self> {
        p.max()
    }
}

impl Elem for usize {
    fn v(&self) -> V {
        V {
            uid: *self as u64,
            val: *self as u32,
        }
    }
    const ARITH: bool = true;
    fn combine(op: RedOp, a: Self, b: Self) -> Self {
        match op {
            RedOp::Add => a.wrapping_add(b),
            RedOp::Xor => a ^ b,
            RedOp::Min => a.min(b),
            RedOp::Max => a.max(b),
            RedOp::NonComm => a.wrapping_mul(31).wrapping_add(b),
        }
    }
    fn identity(op: RedOp) -> Self {
        match op {
            RedOp::Min => usize::MAX,
            _ => 0,
        }
    }
    fn prefix(_i: usize, val: u32) -> Option<Self> {
        Some(val as usize)
    }
    fn t_sum<P: Par<Item = Self>>(p: P) -> Self {
        // wrapping sum is what the model computes; plain `+` could overflow only for astronomically long ranges
        p.sum()
    }
    fn t_min<P: Par<Item = Self>>(p: P) -> Option<Self> {
        p.min()
    }
    fn t_max<P: Par<Item = Self>>(p: P) -> Option<Self> {
        p.max()
    }
}

impl Elem for (u32, E) {
    fn v(&self) -> V {
        self.1.v()
    }
    const ARITH: bool = false;
    fn combine(op: RedOp, a: Self, b: Self) -> Self {
        let op = if op == RedOp::Max { RedOp::Max } else { RedOp::Min };
        pick(op, a, b)
    }
}
impl Elem for (&u32, &E) {
    fn v(&self) -> V {
        self.1.v()
    }
    const ARITH: bool = false;
    fn combine(op: RedOp, a: Self, b: Self) -> Self {
        let op = if op == RedOp::Max { RedOp::Max } else { RedOp::Min };
        pick(op, a, b)
    }
}

// ------------------------------------------------------------------------------------------------
// results

#[derive(Clone, Debug, PartialEq, Eq, serde::Serialize)]
pub enum Out {
    Seq(Vec<V>),
    Count(usize),
    Opt(Option<V>),
    OptIdx(Option<(usize, V)>),
    Val(V),
    Bool(bool),
    Unit,
    Unsupported,
}

/// Observation taken after every construction step.
#[derive(Clone, Debug, serde::Serialize)]
pub struct Snap {
    /// "src", "threads", "chunk", "map", "filter", "flat_map", "filter_map"
    pub step: &'static str,
    /// stage index for transformations, op index for parameter ops
    pub idx: usize,
    /// base name of the concrete computation type after the step (e.g. "ParMapFilter")
    pub ty: String,
    pub params: (NtModel, CsModel),
    pub is_sequential: bool,
    pub closure_calls: u64,
    pub src_nexts: u64,
    pub log_len: usize,
}

pub struct Rc<'a> {
    pub case: &'a Case,
    pub term: Term,
    pub ops: Vec<ParamOp>,
    pub snaps: RefCell<Vec<Snap>>,
    /// log length when the terminal call started
    pub term_start: Cell<usize>,
    /// iteration order of the source instance, recorded for std collections
    pub src_order: RefCell<Option<Vec<V>>>,
}

fn base_type_name<T>() -> String {
    let full = std::any::type_name::<T>();
    let head = full.split('<').next().unwrap_or(full);
    head.rsplit("::").next().unwrap_or(head).to_string()
}

fn params_of(p: Params) -> (NtModel, CsModel) {
    let nt = match p.num_threads {
        NumThreads::Auto => NtModel::Auto,
        NumThreads::Max(n) => NtModel::Max(n.get()),
    };
    let cs = match p.chunk_size {
        ChunkSize::Auto => CsModel::Auto,
        ChunkSize::Exact(n) => CsModel::Exact(n.get()),
        ChunkSize::Min(n) => CsModel::Min(n.get()),
    };
    (nt, cs)
}

pub fn snap<P: Par>(p: &P, step: &'static str, idx: usize, rc: &Rc) {
    let params = p.params();
    rc.snaps.borrow_mut().push(Snap {
        step,
        idx,
        ty: base_type_name::<P>(),
        params: params_of(params),
        is_sequential: params.is_sequential(),
        closure_calls: obs::closure_calls(),
        src_nexts: obs::src_nexts(),
        log_len: obs::log_len(),
    });
}

fn nz(n: usize) -> NonZeroUsize {
    NonZeroUsize::new(n.max(1)).expect("positive")
}

pub fn apply_params<P: Par>(mut p: P, pos: usize, rc: &Rc) -> P {
    for (i, op) in rc.ops.iter().enumerate() {
        if op.pos as usize != pos {
            continue;
        }
        p = match op.kind {
            ParamKind::Threads(Nt::Auto) => p.num_threads(NumThreads::Auto),
            ParamKind::Threads(Nt::Max(n)) => p.num_threads(NumThreads::Max(nz(n))),
            ParamKind::Threads(Nt::Usize(n)) => p.num_threads(n),
            ParamKind::Chunk(Cs::Auto) => p.chunk_size(ChunkSize::Auto),
            ParamKind::Chunk(Cs::Exact(c)) => p.chunk_size(ChunkSize::Exact(nz(c))),
            ParamKind::Chunk(Cs::Min(c)) => p.chunk_size(ChunkSize::Min(nz(c))),
            ParamKind::Chunk(Cs::Usize(c)) => p.chunk_size(c),
        };
        let step = match op.kind {
            ParamKind::Threads(_) => "threads",
            ParamKind::Chunk(_) => "chunk",
        };
        snap(&p, step, i, rc);
    }
    p
}

// ------------------------------------------------------------------------------------------------
// instrumented closures

pub fn mk_map<T: Elem>(st: Stage, si: u8) -> impl Fn(T) -> E + Clone + Send + Sync {
    let tok = obs::Tok;
    move |x: T| {
        let _tok = &tok;
        let v = x.v();
        // the consumed input is dropped first: no user code (Drop) runs after the call has been recorded
        drop(x);
        let _g = obs::enter(Kind::Stage, Site::Stage(si), si, 1, v.uid);
        E::new(map_v(v, si as u32, st.k))
    }
}
pub fn mk_filter<T: Elem>(st: Stage, si: u8) -> impl Fn(&T) -> bool + Clone + Send + Sync {
    let tok = obs::Tok;
    move |x: &T| {
        let _tok = &tok;
        let v = x.v();
        let keep = mask_hit(v.val, st.mask);
        let _g = obs::enter(Kind::Stage, Site::Stage(si), si, keep as u32, v.uid);
        keep
    }
}
fn mk_flat<T: Elem>(st: Stage, si: u8) -> impl Fn(T) -> Vec<E> + Clone + Send + Sync {
    let tok = obs::Tok;
    move |x: T| {
        let _tok = &tok;
        let v = x.v();
        drop(x);
        let n = flat_n(v, st.k, st.fan);
        let _g = obs::enter(Kind::Stage, Site::Stage(si), si, n, v.uid);
        (0..n).map(|j| E::new(flat_v(v, si as u32, st.k, j))).collect()
    }
}
fn mk_filter_map<T: Elem>(st: Stage, si: u8) -> impl Fn(T) -> Option<E> + Clone + Send + Sync {
    let tok = obs::Tok;
    move |x: T| {
        let _tok = &tok;
        let v = x.v();
        drop(x);
        let keep = mask_hit(v.val, st.mask);
        let _g = obs::enter(Kind::Stage, Site::Stage(si), si, keep as u32, v.uid);
        keep.then(|| E::new(map_v(v, si as u32, st.k)))
    }
}
pub fn mk_pred<T: Elem>(mask: u16) -> impl Fn(&T) -> bool + Clone + Send + Sync {
    let tok = obs::Tok;
    move |x: &T| {
        let _tok = &tok;
        let v = x.v();
        let hit = mask_hit(v.val, mask);
        let _g = obs::enter(Kind::Pred, Site::Pred, 0, hit as u32, v.uid);
        hit
    }
}
fn mk_red<T: Elem>(op: RedOp) -> impl Fn(T, T) -> T + Clone + Send + Sync {
    let tok = obs::Tok;
    move |a: T, b: T| {
        let _tok = &tok;
        let _g = obs::enter(Kind::Red, Site::Red, 0, 0, a.v().uid);
        T::combine(op, a, b)
    }
}

// ------------------------------------------------------------------------------------------------
// terminals

pub trait TermSet {
    fn run<P: Par>(p: P, rc: &Rc) -> Out
    where
        P::Item: Elem;
}

fn seq_of<T: Elem>(it: impl IntoIterator<Item = T>) -> Out {
    // views are taken first, then the collection's elements are dropped
    Out::Seq(it.into_iter().map(|x| x.v()).collect())
}

/// the second step of a two-step collect_into history: a small map-only parallel collect into `c`
fn extra_step<T: Elem, C: ParCollectInto<T>>(c: C, n: usize, params: (NtModel, CsModel)) -> C {
    let v: Vec<T> = (0..n).filter_map(|i| T::prefix(1000 + i, (i % 16) as u32)).collect();
    if v.is_empty() {
        return c;
    }
    // the second step runs under the parameters of the case (sequential cases stay sequential, Max(n) stays Max(n),
    // Exact(c) stays Exact(c)): the properties about parameters hold for it as well
    let nt = match params.0 {
        NtModel::Auto => NumThreads::Auto,
        NtModel::Max(n) => NumThreads::Max(nz(n)),
    };
    let cs = match params.1 {
        CsModel::Auto => ChunkSize::Auto,
        CsModel::Exact(c) => ChunkSize::Exact(nz(c)),
        CsModel::Min(c) => ChunkSize::Min(nz(c)),
    };
    v.into_par().num_threads(nt).chunk_size(cs).map(|x| x).collect_into(c)
}

fn collect_into_target<P: Par>(p: P, target: Target, prefix: &[u32], spare: usize, params: (NtModel, CsModel)) -> Out
where
    P::Item: Elem,
{
    let (extras, extras_first) = second_step(spare as u16);
    let th = params;
    let pre = |i: usize| <P::Item as Elem>::prefix(i, prefix[i]);
    match target {
        Target::Vec => {
            let mut t: Vec<P::Item> = Vec::with_capacity(prefix.len() + spare);
            t.extend((0..prefix.len()).filter_map(pre));
            let t = if extras_first { extra_step(t, extras, th) } else { t };
            let r = p.collect_into(t);
            let r = if extras_first { r } else { extra_step(r, extras, th) };
            seq_of(r)
        }
        Target::Fixed => {
            let mut t: Vec<P::Item> = Vec::with_capacity(prefix.len() + spare);
            t.extend((0..prefix.len()).filter_map(pre));
            let f: FixedVec<P::Item> = t.into();
            let f = if extras_first { extra_step(f, extras, th) } else { f };
            let r = p.collect_into(f);
            let r = if extras_first { r } else { extra_step(r, extras, th) };
            seq_of(r)
        }
        Target::SplitDoubling => {
            let mut t: SplitVec<P::Item, Doubling> = SplitVec::with_doubling_growth();
            for x in (0..prefix.len()).filter_map(pre) {
                t.push(x);
            }
            let t = if extras_first { extra_step(t, extras, th) } else { t };
            let r = p.collect_into(t);
            let r = if extras_first { r } else { extra_step(r, extras, th) };
            seq_of(r)
        }
        Target::SplitLinear => {
            let mut t: SplitVec<P::Item, Linear> = SplitVec::with_linear_growth(14 + (spare % 3));
            for x in (0..prefix.len()).filter_map(pre) {
                t.push(x);
            }
            let t = if extras_first { extra_step(t, extras, th) } else { t };
            let r = p.collect_into(t);
            let r = if extras_first { r } else { extra_step(r, extras, th) };
            seq_of(r)
        }
    }
}

fn run_core<P: Par>(p: P, rc: &Rc) -> Option<Out>
where
    P::Item: Elem,
{
    Some(match &rc.term {
        Term::CollectVec => {
            let r = p.collect_vec();
            seq_of(r)
        }
        Term::CollectX => {
            let r = p.collect_x();
            seq_of(r)
        }
        Term::Count => Out::Count(p.count()),
        Term::Reduce { op } => Out::Opt(p.reduce(mk_red(*op)).map(|x| x.v())),
        Term::Find { mask } => Out::Opt(p.find(mk_pred(*mask)).map(|x| x.v())),
        Term::ParamsOnly => {
            drop(p);
            Out::Unit
        }
        _ => return None,
    })
}

fn run_mid<P: Par>(p: P, rc: &Rc) -> Option<Out>
where
    P::Item: Elem,
{
    Some(match &rc.term {
        Term::CollectInto { target: Target::Vec, prefix, spare } => collect_into_target(p, Target::Vec, prefix, *spare as usize, rc.case.final_params()),
        Term::ForEach => {
            p.for_each(move |x| {
                let v = x.v();
                let _g = obs::enter(Kind::ForEach, Site::ForEach, 0, 0, v.uid);
            });
            Out::Unit
        }
        Term::First => Out::Opt(p.first().map(|x| x.v())),
        Term::Any { mask } => Out::Bool(p.any(mk_pred(*mask))),
        _ => return None,
    })
}

/// collect_vec, collect_x, count, reduce, find
pub struct Mini;
impl TermSet for Mini {
    fn run<P: Par>(p: P, rc: &Rc) -> Out
    where
        P::Item: Elem,
    {
        match &rc.term {
            Term::CollectVec | Term::CollectX | Term::Count | Term::Reduce { .. } | Term::Find { .. } | Term::ParamsOnly => {
                run_core(p, rc).expect("core terminal")
            }
            _ => Out::Unsupported,
        }
    }
}

/// Mini + collect_into(Vec), for_each, first, any
pub struct Lite;
impl TermSet for Lite {
    fn run<P: Par>(p: P, rc: &Rc) -> Out
    where
        P::Item: Elem,
    {
        match &rc.term {
            Term::CollectVec | Term::CollectX | Term::Count | Term::Reduce { .. } | Term::Find { .. } | Term::ParamsOnly => {
                run_core(p, rc).expect("core terminal")
            }
            Term::CollectInto { target: Target::Vec, .. } | Term::ForEach | Term::First | Term::Any { .. } => {
                run_mid(p, rc).expect("mid terminal")
            }
            _ => Out::Unsupported,
        }
    }
}

/// every terminal of the `Par` trait
pub struct Full;
impl TermSet for Full {
    fn run<P: Par>(p: P, rc: &Rc) -> Out
    where
        P::Item: Elem,
    {
        match &rc.term {
            Term::CollectVec | Term::CollectX | Term::Count | Term::Reduce { .. } | Term::Find { .. } | Term::ParamsOnly => {
                run_core(p, rc).expect("core terminal")
            }
            Term::CollectInto { target: Target::Vec, .. } | Term::ForEach | Term::First | Term::Any { .. } => {
                run_mid(p, rc).expect("mid terminal")
            }
            Term::Collect => {
                let r = p.collect();
                seq_of(r)
            }
            Term::CollectInto { target, prefix, spare } => collect_into_target(p, *target, prefix, *spare as usize, rc.case.final_params()),
            Term::Fold { op } => {
                let op = *op;
                let r = p.fold(
                    move || {
                        let _g = obs::enter(Kind::Identity, Site::Red, 0, 0, 0);
                        <P::Item as Elem>::identity(op)
                    },
                    mk_red(op),
                );
                Out::Val(r.v())
            }
            Term::Sum => Out::Val(<P::Item as Elem>::t_sum(p).v()),
            Term::Min => Out::Opt(<P::Item as Elem>::t_min(p).map(|x| x.v())),
            Term::Max => Out::Opt(<P::Item as Elem>::t_max(p).map(|x| x.v())),
            Term::MinBy => Out::Opt(
                p.min_by(|a, b| {
                    let _g = obs::enter(Kind::Cmp, Site::Cmp, 0, 0, a.v().uid);
                    tie_key(a.v()).cmp(&tie_key(b.v()))
                })
                .map(|x| x.v()),
            ),
            Term::MaxBy => Out::Opt(
                p.max_by(|a, b| {
                    let _g = obs::enter(Kind::Cmp, Site::Cmp, 0, 0, a.v().uid);
                    tie_key(a.v()).cmp(&tie_key(b.v()))
                })
                .map(|x| x.v()),
            ),
            Term::MinByKey => Out::Opt(
                p.min_by_key(|a| {
                    let _g = obs::enter(Kind::Key, Site::Key, 0, 0, a.v().uid);
                    tie_key(a.v())
                })
                .map(|x| x.v()),
            ),
            Term::MaxByKey => Out::Opt(
                p.max_by_key(|a| {
                    let _g = obs::enter(Kind::Key, Site::Key, 0, 0, a.v().uid);
                    tie_key(a.v())
                })
                .map(|x| x.v()),
            ),
            Term::All { mask } => Out::Bool(p.all(mk_pred(*mask))),
            Term::FindIdx { .. } | Term::FirstIdx => Out::Unsupported,

        }
    }
}

// ------------------------------------------------------------------------------------------------
// type-level recursion over the chain

pub trait Depth {
    const MAX: usize;
    fn go<P: Par>(p: P, idx: usize, rc: &Rc) -> Out
    where
        P::Item: Elem;
}

/// end of the supported depth: run the terminal with term set `TS`
pub struct Z<TS>(PhantomData<TS>);
/// one more stage may follow; if the chain ends here the terminal runs with term set `TS`
pub struct S<TS, D>(PhantomData<(TS, D)>);

fn finish<TS: TermSet, P: Par>(p: P, rc: &Rc) -> Out
where
    P::Item: Elem,
{
    let p = apply_params(p, rc.case.chain.len(), rc);
    rc.term_start.set(obs::log_len());
    TS::run(p, rc)
}

impl<TS: TermSet> Depth for Z<TS> {
    const MAX: usize = 0;
    fn go<P: Par>(p: P, idx: usize, rc: &Rc) -> Out
    where
        P::Item: Elem,
    {
        assert!(idx == rc.case.chain.len(), "chain longer than the depth instantiated for this source");
        finish::<TS, P>(p, rc)
    }
}

impl<TS: TermSet, D: Depth> Depth for S<TS, D> {
    const MAX: usize = 1 + D::MAX;
    fn go<P: Par>(p: P, idx: usize, rc: &Rc) -> Out
    where
        P::Item: Elem,
    {
        if idx == rc.case.chain.len() {
            return finish::<TS, P>(p, rc);
        }
        let p = apply_params(p, idx, rc);
        let st = rc.case.chain[idx];
        let si = idx as u8;
        match st.kind {
            StageKind::Map => {
                let q = p.map(mk_map::<P::Item>(st, si));
                snap(&q, "map", idx, rc);
                D::go(q, idx + 1, rc)
            }
            StageKind::Filter => {
                let q = p.filter(mk_filter::<P::Item>(st, si));
                snap(&q, "filter", idx, rc);
                D::go(q, idx + 1, rc)
            }
            StageKind::FlatMap => {
                let q = p.flat_map(mk_flat::<P::Item>(st, si));
                snap(&q, "flat_map", idx, rc);
                D::go(q, idx + 1, rc)
            }
            StageKind::FilterMap => {
                let q = p.filter_map(mk_filter_map::<P::Item>(st, si));
                snap(&q, "filter_map", idx, rc);
                D::go(q, idx + 1, rc)
            }
        }
    }
}

pub type D3 = S<Full, S<Full, S<Full, Z<Lite>>>>;
pub type D2 = S<Full, S<Full, Z<Lite>>>;
pub type D2L = S<Full, S<Lite, Z<Mini>>>;
pub type D1 = S<Lite, Z<Mini>>;

/// entry used by all sources
pub fn start<D: Depth, P: Par>(p: P, rc: &Rc) -> Out
where
    P::Item: Elem,
{
    snap(&p, "src", 0, rc);
    D::go(p, 0, rc)
}

pub fn shape_of_type_name(ty: &str) -> Option<Shape> {
    Some(match ty {
        "ParEmpty" => Shape::Empty,
        "ParMap" => Shape::Map,
        "ParFilter" => Shape::Fil,
        "ParMapFilter" => Shape::MapFil,
        "ParFilterMap" => Shape::FMap,
        "ParFilterMapFilter" => Shape::FMapFil,
        "ParFlatMap" => Shape::Flat,
        "ParFlatMapFilter" => Shape::FlatFil,
        _ => return None,
    })
}
