//! Hook recorder + cooperative deterministic scheduler driven by the `verif-hooks` events of the runner.
//!
//! Free mode: the hook only records events and hands out logical thread ids.
//! Scheduled mode: exactly one registered thread (the spawner and the workers of the current run) runs at a time;
//! hand-over happens at every instrumented user closure call (`yield_point`) and at every spawner decision hook;
//! the next thread is chosen from a generated tape. Nothing in here calls an RNG or reads a clock, except the
//! watchdog which turns a stuck hand-over into exit code 2 (inconclusive), never into a violation.

use crate::obs::{self, Kind};
use orx_parallel::verif::{self, Event};
use std::cell::Cell;
use std::sync::atomic::{AtomicBool, Ordering};
use std::sync::{Condvar, Mutex, Once};
use std::time::Duration;

#[derive(Clone, Copy, Debug, PartialEq, Eq, serde::Serialize, serde::Deserialize)]
pub enum Policy {
    /// candidate index = byte * n >> 8
    Uniform,
    /// candidates weighted by `weights[tid % 18]`
    Weighted,
    /// PCT style: highest priority runs; a tape byte < 24 demotes the thread that would run
    Priority,
    /// tape bytes are candidate indices (clamped); after the tape: lowest thread id. Used by the exhaustive enumerator.
    Explicit,
}

#[derive(Clone, Debug, PartialEq, Eq, serde::Serialize, serde::Deserialize)]
pub struct Schedule {
    pub policy: Policy,
    pub tape: Vec<u8>,
    pub weights: Vec<u8>,
    /// hand over at every n-th instrumented closure call of a thread only (1 = every call): coarse-grained
    /// schedules make long inputs with large chunks affordable under an owned schedule
    #[serde(default = "one")]
    pub yield_every: u16,
    /// 0 = off; n > 0: every n-th `Drop` of an element on a registered thread is a yield point too. A destructor may run
    /// inside a critical section of the library, so this park is *revocable*: if the thread that was given the token makes no
    /// progress for 10 ms (it may be blocked on something the parked thread holds), the parked thread goes on without the token
    /// until its next yield point. Revocations are counted; on the unchanged tree there are none.
    #[serde(default)]
    pub drop_yield: u8,
    /// 0 = off; n > 0: every n-th `next()` of the instrumented by-value source iterator is a (revocable) yield point as
    /// well - the thread parks *inside* the user's iterator, holding the library's pull handle; threads that need the
    /// handle spin, the park is revoked after 10 ms and the pull completes. This reaches interleavings between reserving a
    /// position and receiving the element, which closure-entry yield points cannot produce.
    #[serde(default)]
    pub src_yield: u8,
}
fn one() -> u16 {
    1
}

const NW: usize = 18;
const MAXT: usize = 256;

struct St {
    active: bool,
    in_run: bool,
    run_base: u16,
    started_in_run: u16,
    registered_in_run: usize,
    parked: [bool; MAXT],
    last_run: [u64; MAXT],
    prio: [i64; MAXT],
    token: Option<u16>,
    step: u64,
    policy: Policy,
    tape: Vec<u8>,
    tape_pos: usize,
    weights: [u8; NW],
    /// (number of candidates, chosen index) per decision with more than one candidate
    decisions: Vec<(u8, u8)>,
    hand_overs: u64,
    revoked: u64,
}

impl St {
    const fn new() -> Self {
        St {
            active: false,
            in_run: false,
            run_base: 0,
            started_in_run: 0,
            registered_in_run: 0,
            parked: [false; MAXT],
            last_run: [0; MAXT],
            prio: [0; MAXT],
            token: None,
            step: 0,
            policy: Policy::Uniform,
            tape: Vec::new(),
            tape_pos: 0,
            weights: [1; NW],
            decisions: Vec::new(),
            hand_overs: 0,
            revoked: 0,
        }
    }

    /// picks the next thread among the parked ones; None if nobody is parked
    fn choose(&mut self) -> Option<u16> {
        let mut cand = [0u16; MAXT];
        let mut n = 0usize;
        for t in 0..MAXT {
            if self.parked[t] {
                cand[n] = t as u16;
                n += 1;
            }
        }
        if n == 0 {
            return None;
        }
        self.step += 1;
        let pick = if n == 1 {
            0
        } else {
            let byte = if self.tape_pos < self.tape.len() {
                let b = self.tape[self.tape_pos];
                self.tape_pos += 1;
                Some(b)
            } else {
                None
            };
            let idx = match (self.policy, byte) {
                (Policy::Explicit, Some(b)) => (b as usize).min(n - 1),
                (Policy::Explicit, None) => 0,
                (_, None) => {
                    // fair fallback: least recently run
                    let mut best = 0;
                    for i in 1..n {
                        if self.last_run[cand[i] as usize] < self.last_run[cand[best] as usize] {
                            best = i;
                        }
                    }
                    best
                }
                (Policy::Uniform, Some(b)) => (b as usize * n) >> 8,
                (Policy::Weighted, Some(b)) => {
                    let total: usize = cand[..n].iter().map(|&t| self.weights[t as usize % NW] as usize).sum();
                    if total == 0 {
                        (b as usize * n) >> 8
                    } else {
                        let x = (b as usize * total) >> 8;
                        let mut acc = 0;
                        let mut chosen = n - 1;
                        for (i, &t) in cand[..n].iter().enumerate() {
                            acc += self.weights[t as usize % NW] as usize;
                            if x < acc {
                                chosen = i;
                                break;
                            }
                        }
                        chosen
                    }
                }
                (Policy::Priority, Some(b)) => {
                    let top = |st: &St| {
                        let mut best = 0;
                        for i in 1..n {
                            if st.prio[cand[i] as usize] > st.prio[cand[best] as usize] {
                                best = i;
                            }
                        }
                        best
                    };
                    let mut best = top(self);
                    if b < 24 {
                        self.prio[cand[best] as usize] = -(self.step as i64);
                        best = top(self);
                    }
                    best
                }
            };
            self.decisions.push((n.min(255) as u8, idx as u8));
            idx
        };
        let t = cand[pick];
        self.last_run[t as usize] = self.step;
        Some(t)
    }
}

static ST: Mutex<St> = Mutex::new(St::new());
static CV: Condvar = Condvar::new();
static ACTIVE: AtomicBool = AtomicBool::new(false);
static INSTALL: Once = Once::new();
static YIELD_EVERY: std::sync::atomic::AtomicU32 = std::sync::atomic::AtomicU32::new(1);
static DROP_YIELD: std::sync::atomic::AtomicU32 = std::sync::atomic::AtomicU32::new(0);
static SRC_YIELD: std::sync::atomic::AtomicU32 = std::sync::atomic::AtomicU32::new(0);

thread_local! {
    static REGISTERED: Cell<bool> = const { Cell::new(false) };
    static CALLS: Cell<u32> = const { Cell::new(0) };
    static DROPS: Cell<u32> = const { Cell::new(0) };
    static NEXTS: Cell<u32> = const { Cell::new(0) };
    static TOKS: Cell<u32> = const { Cell::new(0) };
}

const WATCHDOG: Duration = Duration::from_secs(30);

fn inconclusive(what: &str) -> ! {
    eprintln!("INCONCLUSIVE scheduler watchdog: {what}");
    println!("INCONCLUSIVE scheduler watchdog: {what}");
    std::process::exit(2);
}

fn lock() -> std::sync::MutexGuard<'static, St> {
    ST.lock().unwrap_or_else(|e| e.into_inner())
}

/// Parks the current (registered, token-holding) thread, picks the next one and waits for the token.
fn hand_over_and_wait(mut st: std::sync::MutexGuard<'static, St>, me: u16) {
    st.parked[me as usize] = true;
    let next = st.choose().expect("at least the caller is parked");
    st.parked[next as usize] = false;
    st.token = Some(next);
    if next == me {
        return;
    }
    st.hand_overs += 1;
    CV.notify_all();
    wait_for_token(st, me);
}

fn wait_for_token(mut st: std::sync::MutexGuard<'static, St>, me: u16) {
    while st.token != Some(me) {
        let (g, to) = CV.wait_timeout(st, WATCHDOG).unwrap_or_else(|e| e.into_inner());
        st = g;
        if to.timed_out() && st.token != Some(me) {
            inconclusive("thread waited 30 s for the token");
        }
    }
}

/// Gives the token to some parked thread (if any) without waiting for it again.
fn give_away(mut st: std::sync::MutexGuard<'static, St>) {
    match st.choose() {
        Some(next) => {
            st.parked[next as usize] = false;
            st.token = Some(next);
            st.hand_overs += 1;
        }
        None => st.token = None,
    }
    CV.notify_all();
}

/// Yield point inside every instrumented user closure.
#[inline]
pub fn yield_point() {
    if !ACTIVE.load(Ordering::Relaxed) {
        return;
    }
    if !REGISTERED.with(|r| r.get()) {
        return;
    }
    let every = YIELD_EVERY.load(Ordering::Relaxed);
    if every > 1 {
        let n = CALLS.with(|c| {
            let n = c.get().wrapping_add(1);
            c.set(n);
            n
        });
        if n % every != 0 {
            return;
        }
    }
    let me = obs::tid();
    let mut st = lock();
    if !st.active || !st.in_run {
        return;
    }
    if st.token != Some(me) {
        // this thread went on without the token after a revoked park (see `drop_yield_point`)
        if st.token.is_none() {
            st.token = Some(me);
        } else {
            st.parked[me as usize] = true;
            CV.notify_all();
            wait_for_token(st, me);
            return;
        }
    }
    hand_over_and_wait(st, me);
}

/// Yield point inside `Drop` of the element type (scheduled mode, opt-in per case): revocable park.
pub fn drop_yield_point() {
    if !ACTIVE.load(Ordering::Relaxed) || std::thread::panicking() {
        return;
    }
    revocable_yield(DROP_YIELD.load(Ordering::Relaxed), &DROPS);
}

/// Yield point in the destructor of a closure's captured token (whenever destructors are yield points): revocable park.
pub fn closure_drop_yield_point() {
    if !ACTIVE.load(Ordering::Relaxed) || std::thread::panicking() {
        return;
    }
    if DROP_YIELD.load(Ordering::Relaxed) > 0 {
        revocable_yield(1, &TOKS);
    }
}

/// Yield point inside `next()` of the instrumented source iterator (scheduled mode, opt-in per case): revocable park.
pub fn src_yield_point() {
    if !ACTIVE.load(Ordering::Relaxed) {
        return;
    }
    revocable_yield(SRC_YIELD.load(Ordering::Relaxed), &NEXTS);
}

fn revocable_yield(every: u32, counter: &'static std::thread::LocalKey<Cell<u32>>) {
    if every == 0 || !REGISTERED.with(|r| r.get()) {
        return;
    }
    let n = counter.with(|c| {
        let n = c.get().wrapping_add(1);
        c.set(n);
        n
    });
    if n % every != 0 {
        return;
    }
    let me = obs::tid();
    let mut st = lock();
    if !st.active || !st.in_run || st.token != Some(me) {
        return;
    }
    st.parked[me as usize] = true;
    let next = st.choose().expect("the caller is parked");
    st.parked[next as usize] = false;
    st.token = Some(next);
    if next == me {
        return;
    }
    st.hand_overs += 1;
    CV.notify_all();
    // revocable wait
    let deadline = std::time::Instant::now() + Duration::from_millis(10);
    loop {
        if st.token == Some(me) {
            return;
        }
        let now = std::time::Instant::now();
        if now >= deadline {
            // whoever runs may be blocked (or spinning) on something this thread holds: go on without the token
            st.parked[me as usize] = false;
            st.revoked += 1;
            return;
        }
        let (g, _) = CV.wait_timeout(st, deadline - now).unwrap_or_else(|e| e.into_inner());
        st = g;
    }
}

fn wait_registered(mut st: std::sync::MutexGuard<'static, St>, n: usize) -> std::sync::MutexGuard<'static, St> {
    while st.registered_in_run < n {
        let (g, to) = CV.wait_timeout(st, WATCHDOG).unwrap_or_else(|e| e.into_inner());
        st = g;
        if to.timed_out() && st.registered_in_run < n {
            inconclusive("spawned worker did not start within 30 s");
        }
    }
    st
}

fn hook(ev: Event) {
    match ev {
        Event::RunBegin {
            max_num_threads,
            chunk_size,
            exact,
            input_len,
        } => {
            let mut st = lock();
            let nested = st.in_run;
            if !nested {
                st.in_run = true;
                st.started_in_run = 0;
                st.registered_in_run = 0;
            }
            let aux = (chunk_size as u64) << 1 | exact as u64;
            drop(st);
            obs::record(
                Kind::RunBegin,
                input_len.is_some() as u8,
                max_num_threads.min(u32::MAX as usize) as u32,
                aux,
            );
            if let Some(len) = input_len {
                obs::record(Kind::RunLen, 0, 0, len as u64);
            }
            let mut st = lock();
            if st.active && !nested {
                let me = obs::tid();
                REGISTERED.with(|r| r.set(true));
                st.token = Some(me);
                st.parked[me as usize] = false;
            }
        }
        Event::WorkerBegin { index, chunk } => {
            let mut st = lock();
            let tid = st.run_base + 1 + index as u16;
            assert!((tid as usize) < MAXT, "too many worker threads in one case");
            obs::set_tid(tid);
            st.started_in_run += 1;
            drop(st);
            obs::record(Kind::WorkerBegin, 0, chunk.min(u32::MAX as usize) as u32, index as u64);
            let mut st = lock();
            if st.active {
                REGISTERED.with(|r| r.set(true));
                st.parked[tid as usize] = true;
                st.registered_in_run += 1;
                CV.notify_all();
                wait_for_token(st, tid);
            }
        }
        Event::WorkerEnd { index, panicking } => {
            obs::record(Kind::WorkerEnd, 0, panicking as u32, index as u64);
            if REGISTERED.with(|r| r.replace(false)) {
                let mut st = lock();
                if st.active {
                    let me = obs::tid();
                    if st.token == Some(me) || st.token.is_none() {
                        give_away(st);
                    } else {
                        // a thread that went on without the token (revoked park) ends: nothing to hand over
                        st.parked[me as usize] = false;
                    }
                }
            }
        }
        Event::SpawnCheck { num_spawned } | Event::ChunkCheck { num_spawned } => {
            let kind = if matches!(ev, Event::SpawnCheck { .. }) {
                Kind::SpawnCheck
            } else {
                Kind::ChunkCheck
            };
            if REGISTERED.with(|r| r.get()) {
                let st = lock();
                if st.active {
                    let st = wait_registered(st, num_spawned);
                    let me = obs::tid();
                    hand_over_and_wait(st, me);
                }
            }
            // recorded when the spawner actually proceeds to its decision
            obs::record(kind, 0, num_spawned as u32, 0);
        }
        Event::SpawnerDone { num_spawned } => {
            obs::record(Kind::SpawnerDone, 0, num_spawned as u32, 0);
            if REGISTERED.with(|r| r.replace(false)) {
                let st = lock();
                if st.active {
                    let st = wait_registered(st, num_spawned);
                    give_away(st);
                }
            }
        }
        Event::RunEnd => {
            obs::record(Kind::RunEnd, 0, 0, 0);
            let mut st = lock();
            // a run that unwinds before SpawnerDone leaves the caller registered
            REGISTERED.with(|r| r.set(false));
            st.in_run = false;
            st.run_base += st.started_in_run;
            st.started_in_run = 0;
            st.token = None;
        }
    }
}

/// Installs the process-wide hook (idempotent).
pub fn install() {
    INSTALL.call_once(|| verif::set_hook(hook));
}

/// Prepares the recorder/scheduler for a new case. `None` = free mode.
pub fn begin_case(schedule: Option<&Schedule>) {
    install();
    let mut st = lock();
    *st = St::new();
    if let Some(s) = schedule {
        st.active = true;
        st.policy = s.policy;
        st.tape = s.tape.clone();
        YIELD_EVERY.store(s.yield_every.max(1) as u32, Ordering::SeqCst);
        DROP_YIELD.store(s.drop_yield as u32, Ordering::SeqCst);
        SRC_YIELD.store(s.src_yield as u32, Ordering::SeqCst);
        for (i, w) in s.weights.iter().take(NW).enumerate() {
            // workers always have weight >= 1 (fairness); the spawner (slot 0) may be starved
            st.weights[i] = if i == 0 { *w } else { (*w).max(1) };
        }
        for t in 0..MAXT {
            st.prio[t] = st.weights[t % NW] as i64 * 1000 - t as i64;
        }
    }
    ACTIVE.store(st.active, Ordering::SeqCst);
    REGISTERED.with(|r| r.set(false));
}

/// Summary of the scheduling that took place.
#[derive(Clone, Debug, Default)]
pub struct SchedReport {
    pub decisions: Vec<(u8, u8)>,
    pub hand_overs: u64,
    pub tape_used: usize,
    /// parks inside `Drop` that were revoked (the thread given the token made no progress for 10 ms)
    pub revoked: u64,
}

pub fn end_case() -> SchedReport {
    let mut st = lock();
    let rep = SchedReport {
        decisions: std::mem::take(&mut st.decisions),
        hand_overs: st.hand_overs,
        tape_used: st.tape_pos,
        revoked: st.revoked,
    };
    DROP_YIELD.store(0, Ordering::SeqCst);
    SRC_YIELD.store(0, Ordering::SeqCst);
    st.active = false;
    ACTIVE.store(false, Ordering::SeqCst);
    REGISTERED.with(|r| r.set(false));
    rep
}
