//! Byte-level decoder: every byte string decodes to a valid, executable `Case` (free-running mode), so that a
//! coverage-guided fuzzer reaches the library instead of dying in input validation. Used by the cargo-fuzz targets.

use crate::case::*;
use crate::elem::RedOp;
use crate::gen::{normalise, GenCfg, ModeCfg};
use crate::obs::Site;
use arbitrary::Unstructured;

#[derive(Clone, Copy, Debug, PartialEq, Eq)]
pub enum FuzzProfile {
    /// ordered collects into empty targets (C01)
    Collect,
    /// collect_into non-empty targets (C06)
    CollectInto,
    /// collect_x (C07)
    CollectX,
    /// any terminal on owning sources, drop accounting (C13)
    Drops,
    /// any terminal with injected panics (C14)
    Panics,
}

fn pick<T: Copy>(u: &mut Unstructured, xs: &[T]) -> T {
    let i = u.int_in_range(0..=xs.len() - 1).unwrap_or(0);
    xs[i]
}

fn source(u: &mut Unstructured, owning_only: bool) -> Source {
    let hint = pick(u, &[Hint::Exact, Hint::Zero, Hint::Lower, Hint::Loose]);
    let kind = pick(
        u,
        &[Coll::VecDeque, Coll::BTreeSet, Coll::HashSet, Coll::LinkedList, Coll::BinaryHeap, Coll::BTreeMap, Coll::HashMap],
    );
    let by_ref = u.arbitrary::<bool>().unwrap_or(false);
    let n = u.int_in_range(0..=15u8).unwrap_or(0);
    if owning_only {
        match n % 5 {
            0 | 1 => Source::VecOwned,
            2 | 3 => Source::Iter { hint },
            _ => Source::Coll { kind, by_ref: false },
        }
    } else {
        match n {
            0..=3 => Source::VecOwned,
            4..=7 => Source::Iter { hint },
            8 => Source::VecRef,
            9 => Source::SliceRef { skip: u.int_in_range(0..=3u8).unwrap_or(0) },
            10 => Source::SliceIntoPar,
            11 => Source::Range { start: u.int_in_range(0..=40u16).unwrap_or(0) },
            12 => Source::RangeIter { start: u.int_in_range(0..=40u16).unwrap_or(0) },
            13 => Source::ClonedSlice,
            14 => if by_ref { Source::ParCloned } else { Source::NestedCloned },
            _ => Source::Coll { kind, by_ref },
        }
    }
}

fn stage(u: &mut Unstructured) -> Stage {
    let kind = pick(u, &[StageKind::Map, StageKind::Filter, StageKind::FlatMap, StageKind::FilterMap]);
    let fan = match u.int_in_range(0..=15u8).unwrap_or(0) {
        0..=11 => u.int_in_range(0..=3u8).unwrap_or(1),
        12..=13 => u.int_in_range(4..=12u8).unwrap_or(4),
        _ => pick(u, &[63u8, 64, 65, 130]),
    };
    Stage {
        kind,
        k: u.int_in_range(0..=63u32).unwrap_or(0),
        mask: u.arbitrary::<u16>().unwrap_or(0xffff),
        fan,
    }
}

fn nt(u: &mut Unstructured) -> Nt {
    match u.int_in_range(0..=7u8).unwrap_or(0) {
        0 => Nt::Auto,
        1 => Nt::Usize(u.int_in_range(0..=17usize).unwrap_or(2)),
        2 => Nt::Max(100),
        _ => Nt::Max(u.int_in_range(1..=17usize).unwrap_or(2)),
    }
}
fn cs(u: &mut Unstructured) -> Cs {
    match u.int_in_range(0..=9u8).unwrap_or(0) {
        0 => Cs::Auto,
        1..=3 => Cs::Exact(u.int_in_range(1..=33usize).unwrap_or(1)),
        4..=6 => Cs::Min(u.int_in_range(1..=33usize).unwrap_or(1)),
        7 => Cs::Usize(u.int_in_range(0..=33usize).unwrap_or(0)),
        8 => Cs::Exact(u.int_in_range(34..=4096usize).unwrap_or(64)),
        _ => Cs::Min(u.int_in_range(34..=4096usize).unwrap_or(64)),
    }
}

fn target(u: &mut Unstructured) -> Target {
    pick(u, &[Target::Vec, Target::SplitDoubling, Target::SplitLinear, Target::Fixed])
}

fn term(u: &mut Unstructured, p: FuzzProfile) -> Term {
    let mask = u.arbitrary::<u16>().unwrap_or(1);
    let op = pick(u, &[RedOp::Add, RedOp::Xor, RedOp::Min, RedOp::Max]);
    let prefix_len = u.int_in_range(0..=70usize).unwrap_or(0);
    let prefix: Vec<u32> = (0..prefix_len).map(|_| u.int_in_range(0..=15u32).unwrap_or(0)).collect();
    let spare = u.int_in_range(0..=200u16).unwrap_or(0);
    let any = |u: &mut Unstructured| -> Term {
        match u.int_in_range(0..=21u8).unwrap_or(0) {
            0 => Term::CollectVec,
            1 => Term::Collect,
            2 => Term::CollectInto {
                target: target(u),
                prefix: prefix.clone(),
                spare,
            },
            3 => Term::CollectX,
            4 => Term::Count,
            5 => Term::ForEach,
            6 => Term::Reduce { op },
            7 => Term::Fold { op },
            8 => Term::Sum,
            9 => Term::Min,
            10 => Term::Max,
            11 => Term::MinBy,
            12 => Term::MaxBy,
            13 => Term::MinByKey,
            14 => Term::MaxByKey,
            15 => Term::Find { mask },
            16 => Term::First,
            17 => Term::Any { mask },
            18 => Term::All { mask },
            19 => Term::FindIdx { mask },
            20 => Term::FirstIdx,
            _ => Term::CollectVec,
        }
    };
    match p {
        FuzzProfile::Collect => match u.int_in_range(0..=2u8).unwrap_or(0) {
            0 => Term::CollectVec,
            1 => Term::Collect,
            _ => Term::CollectInto {
                target: target(u),
                prefix: vec![],
                spare,
            },
        },
        FuzzProfile::CollectInto => Term::CollectInto {
            target: target(u),
            prefix,
            spare,
        },
        FuzzProfile::CollectX => Term::CollectX,
        FuzzProfile::Drops | FuzzProfile::Panics => any(u),
    }
}

pub fn decode(data: &[u8], profile: FuzzProfile) -> Case {
    let mut u = Unstructured::new(data);
    let owning = matches!(profile, FuzzProfile::Drops);
    let source = source(&mut u, owning);
    let n_stages = u.int_in_range(0..=3usize).unwrap_or(0);
    let chain: Vec<Stage> = (0..n_stages).map(|_| stage(&mut u)).collect();
    let mut params = vec![
        ParamOp {
            pos: u.int_in_range(0..=3u8).unwrap_or(0),
            kind: ParamKind::Threads(nt(&mut u)),
        },
        ParamOp {
            pos: u.int_in_range(0..=3u8).unwrap_or(0),
            kind: ParamKind::Chunk(cs(&mut u)),
        },
    ];
    if u.arbitrary::<bool>().unwrap_or(false) {
        params.push(ParamOp {
            pos: u.int_in_range(0..=3u8).unwrap_or(0),
            kind: if u.arbitrary::<bool>().unwrap_or(false) {
                ParamKind::Threads(nt(&mut u))
            } else {
                ParamKind::Chunk(cs(&mut u))
            },
        });
    }
    let term = term(&mut u, profile);
    let spin_max = pick(&mut u, &[0u32, 0, 20, 200, 2000]);
    let mode = Mode::Free {
        spin_seed: u.arbitrary::<u32>().unwrap_or(0),
        spin_max,
        src_spin: pick(&mut u, &[0u32, 0, 0, 100]),
    };
    let mut faults = vec![];
    if profile == FuzzProfile::Panics {
        let nf = u.int_in_range(1..=2usize).unwrap_or(1);
        for _ in 0..nf {
            let site = match u.int_in_range(0..=9u8).unwrap_or(0) {
                0 => Site::Pred,
                1 => Site::Red,
                2 => Site::Key,
                3 => Site::Cmp,
                4 => Site::ForEach,
                _ => Site::Stage(u.int_in_range(0..=2u8).unwrap_or(0)),
            };
            let at = if u.arbitrary::<bool>().unwrap_or(false) {
                At::Nth(u.int_in_range(0..=400u32).unwrap_or(0))
            } else {
                At::Arg(u.arbitrary::<u32>().unwrap_or(0))
            };
            faults.push(Fault { site, at });
        }
    }
    // the rest of the bytes are the input values; length is what the fuzzer provides (bounded)
    let rest = u.take_rest();
    let input: Vec<u32> = rest.iter().take(1500).map(|b| (*b % 16) as u32).collect();
    let case = Case {
        source,
        input,
        chain,
        params,
        term,
        mode,
        faults,
    };
    let mut cfg = GenCfg::base(ModeCfg::Free);
    cfg.max_chain = 3;
    normalise(case, &cfg)
}
