//! The committed list of known findings (/verif/known_findings.json). Read once; never written at run time.

use serde::Deserialize;
use std::sync::OnceLock;

#[derive(Clone, Debug, Deserialize)]
pub struct Finding {
    pub property: String,
    /// "open" or "fixed"
    pub status: String,
    /// exact failure signature as produced by the property's oracle
    pub signature: String,
    pub what: String,
    #[serde(default)]
    pub commit: Option<String>,
}

static FINDINGS: OnceLock<Vec<Finding>> = OnceLock::new();

pub fn load(path: &str) {
    let v: Vec<Finding> = match std::fs::read_to_string(path) {
        Ok(s) => {
            #[derive(Deserialize)]
            struct File {
                findings: Vec<Finding>,
            }
            match serde_json::from_str::<File>(&s) {
                Ok(f) => f.findings,
                Err(e) => {
                    eprintln!("INCONCLUSIVE cannot parse {path}: {e}");
                    std::process::exit(2);
                }
            }
        }
        Err(_) => vec![],
    };
    let _ = FINDINGS.set(v);
}

pub fn all() -> &'static [Finding] {
    FINDINGS.get().map(|v| &v[..]).unwrap_or(&[])
}

/// Is there an *open* finding of this property with exactly this signature? (fixed entries suppress nothing)
pub fn is_open(property: &str, sig: &str) -> bool {
    all().iter().any(|f| f.property == property && f.status == "open" && f.signature == sig)
}
pub fn open_for(property: &str) -> Vec<&'static Finding> {
    all().iter().filter(|f| f.property == property && f.status == "open").collect()
}
