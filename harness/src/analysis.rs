//! Derived views of the event log.

use crate::obs::{Ev, Kind};
use std::collections::{BTreeMap, BTreeSet};

/// One parallel run of the library's runner (a terminal, or an eagerly materialised stage).
#[derive(Clone, Debug)]
pub struct RunSeg {
    pub begin: usize,
    pub end: usize,
    pub max_num_threads: usize,
    pub chunk: usize,
    pub exact: bool,
    pub len_known: bool,
    pub input_len: Option<usize>,
    /// (logical thread id, chunk size handed to the worker), in start order
    pub workers: Vec<(u16, usize)>,
    pub spawned: usize,
    /// maximum of (worker begins - worker ends) over the run
    pub max_live: usize,
    /// for each SpawnCheck/ChunkCheck: (log index, num_spawned)
    pub checks: Vec<(usize, usize, bool)>,
    pub panicking_workers: usize,
}

pub fn runs(log: &[Ev]) -> Vec<RunSeg> {
    let mut out = vec![];
    let mut cur: Option<RunSeg> = None;
    let mut live = 0usize;
    for (i, e) in log.iter().enumerate() {
        match e.kind {
            Kind::RunBegin => {
                if let Some(mut r) = cur.take() {
                    r.end = i;
                    out.push(r);
                }
                live = 0;
                cur = Some(RunSeg {
                    begin: i,
                    end: log.len(),
                    max_num_threads: e.extra as usize,
                    chunk: (e.uid >> 1) as usize,
                    exact: e.uid & 1 == 1,
                    len_known: e.stage == 1,
                    input_len: None,
                    workers: vec![],
                    spawned: 0,
                    max_live: 0,
                    checks: vec![],
                    panicking_workers: 0,
                });
            }
            Kind::WorkerBegin => {
                if let Some(r) = cur.as_mut() {
                    r.workers.push((e.tid, e.extra as usize));
                    r.spawned += 1;
                    live += 1;
                    r.max_live = r.max_live.max(live);
                }
            }
            Kind::WorkerEnd => {
                if let Some(r) = cur.as_mut() {
                    live = live.saturating_sub(1);
                    if e.extra == 1 {
                        r.panicking_workers += 1;
                    }
                }
            }
            Kind::SpawnCheck | Kind::ChunkCheck => {
                if let Some(r) = cur.as_mut() {
                    r.checks.push((i, e.extra as usize, e.kind == Kind::ChunkCheck));
                }
            }
            Kind::RunLen => {
                if let Some(r) = cur.as_mut() {
                    r.input_len = Some(e.uid as usize);
                }
            }
            Kind::RunEnd => {
                if let Some(mut r) = cur.take() {
                    r.end = i;
                    out.push(r);
                }
            }
            _ => {}
        }
    }
    if let Some(r) = cur.take() {
        out.push(r);
    }
    out
}

/// distinct threads that executed user closures in `log[from..]`
pub fn closure_threads(log: &[Ev], from: usize) -> BTreeSet<u16> {
    log[from.min(log.len())..]
        .iter()
        .filter(|e| e.kind.is_closure())
        .map(|e| e.tid)
        .collect()
}

/// per (kind, stage): distinct threads
pub fn threads_per_closure(log: &[Ev]) -> BTreeMap<(u8, u8), BTreeSet<u16>> {
    let mut m: BTreeMap<(u8, u8), BTreeSet<u16>> = BTreeMap::new();
    for e in log.iter().filter(|e| e.kind.is_closure()) {
        m.entry((e.kind as u8, e.stage)).or_default().insert(e.tid);
    }
    m
}

/// number of worker threads that executed at least one closure / pulled at least one source element
pub fn busy_workers(log: &[Ev], from: usize) -> usize {
    log[from.min(log.len())..]
        .iter()
        .filter(|e| (e.kind.is_closure() || e.kind == Kind::SrcSome) && e.tid != 0)
        .map(|e| e.tid)
        .collect::<BTreeSet<_>>()
        .len()
}

/// thread that ran the first stage's closure on the element `uid`
pub fn thread_of_stage0(log: &[Ev], uid: u64) -> Option<u16> {
    log.iter()
        .find(|e| e.kind == Kind::Stage && e.stage == 0 && e.uid == uid)
        .map(|e| e.tid)
}

pub fn sorted<T: Ord + Clone>(v: &[T]) -> Vec<T> {
    let mut v = v.to_vec();
    v.sort();
    v
}
