//! proptest strategies for `Case`. Every random choice of a run lives here (or in the fuzzer's bytes).

use crate::case::*;
use crate::elem::RedOp;
use crate::obs::Site;
use crate::run::{max_depth, term_supported, with_index_shape_ok};
use crate::sched::{Policy, Schedule};
use proptest::collection::vec;
use proptest::prelude::*;

#[derive(Clone, Copy, Debug, PartialEq, Eq)]
pub enum SrcClass {
    /// everything
    All,
    /// sources that own their elements
    Owning,
    /// by-value instrumented iterators only
    InstrIter,
    /// Vec (owned) and instrumented iterators: the deep (3 stage) sources
    Deep,
}

#[derive(Clone, Copy, Debug, PartialEq, Eq)]
pub enum ThreadsCfg {
    /// Auto, Max(1..=17), Usize(0..=17), Max(100)
    Any,
    /// Max(n) with n in 2..=max
    ParMax(usize),
    /// Max(n): n in 2..=7 mostly, 8..=16 in a quarter of the cases (workers spawned after one and two lag periods)
    ParWide,
    /// Max(n) n in 1..=max, plus a few larger than 16
    MaxN(usize),
    /// exactly Max(1) / Usize(1)
    Seq,
    /// Max(n), n in 6..=16: enough workers for spawns after one and two lag periods
    Many,
}
#[derive(Clone, Copy, Debug, PartialEq, Eq)]
pub enum ChunkCfg {
    /// Auto, Exact/Min/Usize small, sampled up to `big`
    Any { big: usize },
    /// small explicit sizes 1..=max (Exact, Min, Usize)
    Small(usize),
    /// Exact(c) only, c in 1..=max
    ExactOnly(usize),
    /// mostly hundreds to thousands of elements per pull (Exact and Min), Auto now and then
    Large,
    /// small power-of-two minimum sizes (and Auto): the sizes that grow for workers spawned after a lag period
    GrowingMin,
}
#[derive(Clone, Copy, Debug, PartialEq, Eq)]
pub enum ParamPos {
    /// all parameter operations on the source (position 0)
    OnSource,
    /// anywhere in the chain, possibly overriding each other
    Anywhere,
}
#[derive(Clone, Copy, Debug, PartialEq, Eq)]
pub enum ModeCfg {
    Free,
    Sched,
}
#[derive(Clone, Debug, PartialEq, Eq)]
pub enum TermClass {
    Collect,
    CollectIntoPrefixed,
    CollectX,
    Count,
    ForEach,
    ReduceFamily,
    /// reduce/fold with the non-commutative operator (sequential)
    ReduceNonComm,
    ShortCircuit,
    WithIndex,
    ParamsOnly,
}

#[derive(Clone, Debug)]
pub struct GenCfg {
    pub src: SrcClass,
    pub max_len: usize,
    pub max_chain: usize,
    pub min_chain: usize,
    pub terms: Vec<TermClass>,
    pub threads: ThreadsCfg,
    pub chunk: ChunkCfg,
    pub pos: ParamPos,
    pub mode: ModeCfg,
    /// number of injected panics (0..=n)
    pub max_faults: usize,
    /// always at least one fault
    pub force_fault: bool,
    /// scheduled mode: hand-over granularities to choose from
    pub yield_every: Vec<u16>,
    /// inputs are long (>= 1000 elements)
    pub long_inputs: bool,
    /// scheduled mode: the source iterator's next() is a (revocable) yield point in half of the fine-grained schedules
    pub src_yield_often: bool,
}

impl GenCfg {
    pub fn base(mode: ModeCfg) -> GenCfg {
        GenCfg {
            src: SrcClass::All,
            max_len: if mode == ModeCfg::Sched { 64 } else { 4096 },
            max_chain: 3,
            min_chain: 0,
            terms: vec![TermClass::Collect],
            threads: if mode == ModeCfg::Sched {
                ThreadsCfg::ParWide
            } else {
                ThreadsCfg::Any
            },
            chunk: if mode == ModeCfg::Sched {
                ChunkCfg::Small(5)
            } else {
                ChunkCfg::Any { big: 4096 }
            },
            pos: ParamPos::Anywhere,
            mode,
            max_faults: 0,
            force_fault: false,
            yield_every: vec![1],
            long_inputs: false,
            src_yield_often: false,
        }
    }
    /// scheduled mode aimed at adaptive chunk growth: many workers, small minimum chunk sizes, a few hundred to a few
    /// thousand elements, so that workers spawned after a lag period get larger chunks than the first ones
    /// (mixed chunk sizes in one run)
    pub fn growth_sched() -> GenCfg {
        let mut c = GenCfg::base(ModeCfg::Sched);
        c.max_len = 1200;
        c.long_inputs = true;
        c.threads = ThreadsCfg::Many;
        c.chunk = ChunkCfg::GrowingMin;
        c.pos = ParamPos::OnSource;
        c.yield_every = vec![1, 2, 8, 32];
        c.src_yield_often = true;
        c.src = SrcClass::Deep;
        c.max_chain = 2;
        c.min_chain = 1;
        c
    }
    /// scheduled mode over long inputs with large chunks: coarse-grained hand-over
    pub fn long_sched() -> GenCfg {
        let mut c = GenCfg::base(ModeCfg::Sched);
        c.max_len = 6000;
        c.long_inputs = true;
        c.threads = ThreadsCfg::ParWide;
        c.chunk = ChunkCfg::Large;
        c.yield_every = vec![16, 64, 256, 1024];
        c.src = SrcClass::Deep;
        c.max_chain = 2;
        c
    }
}

fn source_strategy(class: SrcClass) -> BoxedStrategy<Source> {
    let hint = prop_oneof![Just(Hint::Exact), Just(Hint::Zero), Just(Hint::Lower), Just(Hint::Loose)];
    let iter = hint.prop_map(|hint| Source::Iter { hint });
    let coll_kind = prop_oneof![
        Just(Coll::VecDeque),
        Just(Coll::BTreeSet),
        Just(Coll::HashSet),
        Just(Coll::LinkedList),
        Just(Coll::BinaryHeap),
        Just(Coll::BTreeMap),
        Just(Coll::HashMap)
    ];
    match class {
        SrcClass::InstrIter => iter.boxed(),
        SrcClass::Deep => prop_oneof![2 => Just(Source::VecOwned), 3 => iter].boxed(),
        SrcClass::Owning => prop_oneof![
            4 => Just(Source::VecOwned),
            4 => iter,
            2 => coll_kind.prop_map(|kind| Source::Coll { kind, by_ref: false }),
        ]
        .boxed(),
        SrcClass::All => prop_oneof![
            6 => Just(Source::VecOwned),
            8 => iter,
            2 => Just(Source::VecRef),
            2 => (0u8..4).prop_map(|skip| Source::SliceRef { skip }),
            1 => Just(Source::SliceIntoPar),
            1 => Just(Source::ArrayRef),
            2 => (0u16..50).prop_map(|start| Source::Range { start }),
            1 => (0u16..50).prop_map(|start| Source::RangeIter { start }),
            1 => Just(Source::ClonedSlice),
            1 => Just(Source::ParCloned),
            1 => Just(Source::NestedCloned),
            1 => (0u16..50).prop_map(|start| Source::NestedCopied { start }),
            3 => (coll_kind, any::<bool>()).prop_map(|(kind, by_ref)| Source::Coll { kind, by_ref }),
        ]
        .boxed(),
    }
}

fn mask_strategy() -> BoxedStrategy<u16> {
    prop_oneof![
        1 => Just(0u16),
        3 => (0u32..16).prop_map(|b| 1u16 << b),
        2 => (0u32..16, 0u32..16).prop_map(|(a, b)| (1u16 << a) | (1u16 << b)),
        3 => any::<u16>(),
        2 => any::<u16>().prop_map(|m| m | 0x5a5a),
        1 => Just(0xffffu16),
    ]
    .boxed()
}

fn stage_strategy() -> BoxedStrategy<Stage> {
    (
        prop_oneof![
            Just(StageKind::Map),
            Just(StageKind::Filter),
            Just(StageKind::FlatMap),
            Just(StageKind::FilterMap)
        ],
        0u32..64,
        mask_strategy(),
        // fan-out of flat_map: mostly small (empty inner iterators included), sometimes large expansions
        prop_oneof![
            12 => 0u8..=3,
            2 => 4u8..=12,
            1 => prop_oneof![Just(63u8), Just(64u8), Just(65u8), Just(130u8), Just(255u8)],
        ],
    )
        .prop_map(|(kind, k, mask, fan)| Stage { kind, k, mask, fan })
        .boxed()
}

fn len_strategy(max_len: usize) -> BoxedStrategy<usize> {
    // boundary lengths (empty, one element = a single worker, a handful) get their own share
    if max_len <= 64 {
        prop_oneof![
            1 => 0usize..=3usize.min(max_len),
            6 => 0..=max_len,
        ]
        .boxed()
    } else if max_len <= 400 {
        prop_oneof![
            1 => 0usize..=3,
            4 => 0usize..=40,
            3 => 41usize..=max_len,
        ]
        .boxed()
    } else {
        prop_oneof![
            1 => 0usize..=3,
            5 => 0usize..=40,
            3 => 41usize..=300,
            2 => 300usize..=max_len,
        ]
        .boxed()
    }
}

fn input_strategy(max_len: usize, long: bool) -> BoxedStrategy<Vec<u32>> {
    let lens = if long { prop_oneof![1 => 300usize..=1000, 2 => 600usize..=max_len.max(1001)].boxed() } else { len_strategy(max_len) };
    lens
        .prop_flat_map(|n| {
            prop_oneof![
                6 => vec(0u32..16, n),
                // heavy duplicates
                2 => vec(0u32..3, n),
                1 => vec(Just(7u32), n),
            ]
        })
        .boxed()
}

fn threads_strategy(cfg: ThreadsCfg) -> BoxedStrategy<Nt> {
    match cfg {
        ThreadsCfg::Any => prop_oneof![
            2 => Just(Nt::Auto),
            6 => (1usize..=17).prop_map(Nt::Max),
            3 => (0usize..=17).prop_map(Nt::Usize),
            1 => Just(Nt::Max(100)),
        ]
        .boxed(),
        ThreadsCfg::ParMax(m) => (2usize..=m).prop_map(Nt::Max).boxed(),
        ThreadsCfg::ParWide => prop_oneof![
            3 => (2usize..=7).prop_map(Nt::Max),
            1 => (8usize..=16).prop_map(Nt::Max),
        ]
        .boxed(),
        ThreadsCfg::MaxN(m) => prop_oneof![
            8 => (1usize..=m).prop_map(Nt::Max),
            1 => (17usize..=40).prop_map(Nt::Max),
        ]
        .boxed(),
        ThreadsCfg::Seq => prop_oneof![Just(Nt::Max(1)), Just(Nt::Usize(1))].boxed(),
        ThreadsCfg::Many => prop_oneof![3 => (6usize..=9).prop_map(Nt::Max), 2 => (10usize..=16).prop_map(Nt::Max), 1 => Just(Nt::Auto)].boxed(),
    }
}

/// sizes around powers of two (word sizes, buffer sizes): where size-dependent arithmetic tends to change behaviour
fn pow2ish(max: usize) -> BoxedStrategy<usize> {
    let mut v: Vec<usize> = vec![1, 2, 3];
    let mut p = 4usize;
    while p <= max {
        v.push(p - 1);
        v.push(p);
        if p + 1 <= max {
            v.push(p + 1);
        }
        p *= 2;
    }
    proptest::sample::select(v).boxed()
}

fn chunk_strategy(cfg: ChunkCfg) -> BoxedStrategy<Cs> {
    match cfg {
        ChunkCfg::Any { big } => prop_oneof![
            2 => Just(Cs::Auto),
            4 => (1usize..=33).prop_map(Cs::Exact),
            4 => (1usize..=33).prop_map(Cs::Min),
            // chunk size 1 selects separate code paths in every kernel, and Min(1) is what Auto resolves to on short inputs
            1 => Just(Cs::Min(1)),
            1 => Just(Cs::Exact(1)),
            2 => (0usize..=33).prop_map(Cs::Usize),
            1 => (34usize..=big.max(35)).prop_map(Cs::Exact),
            1 => (34usize..=big.max(35)).prop_map(Cs::Min),
            1 => pow2ish(big.max(35)).prop_map(Cs::Exact),
            2 => pow2ish(big.max(35)).prop_map(Cs::Min),
            // "every chunk_size setting": astronomically large sizes as well (kept to known-length, non-iterator sources by
            // `normalise`: a by-value iterator source allocates `c` slots per pull)
            1 => proptest::sample::select(vec![1usize << 32, 1 << 62, (1 << 62) + 3, 1 << 63, usize::MAX]).prop_map(Cs::Exact),
            1 => proptest::sample::select(vec![1usize << 32, 1 << 62, (1 << 62) + 3, 1 << 63, usize::MAX]).prop_map(Cs::Min),
        ]
        .boxed(),
        ChunkCfg::Small(m) => prop_oneof![
            3 => (1usize..=m).prop_map(Cs::Exact),
            3 => (1usize..=m).prop_map(Cs::Min),
            1 => (1usize..=m).prop_map(Cs::Usize),
        ]
        .boxed(),
        ChunkCfg::Large => prop_oneof![
            1 => Just(Cs::Auto),
            3 => (200usize..=4096).prop_map(Cs::Exact),
            3 => (200usize..=4096).prop_map(Cs::Min),
            1 => (1025usize..=3000).prop_map(Cs::Exact),
            // medium sizes around powers of two, mostly minimum sizes (they grow for late workers)
            1 => pow2ish(512).prop_map(Cs::Exact),
            3 => pow2ish(512).prop_map(Cs::Min),
        ]
        .boxed(),
        ChunkCfg::GrowingMin => prop_oneof![
            1 => Just(Cs::Auto),
            8 => proptest::sample::select(vec![1usize, 2, 4, 8, 16, 32, 64]).prop_map(Cs::Min),
            1 => proptest::sample::select(vec![3usize, 5, 12, 24, 48]).prop_map(Cs::Min),
        ]
        .boxed(),
        ChunkCfg::ExactOnly(m) => prop_oneof![
            4 => (1usize..=m.min(9)).prop_map(Cs::Exact),
            1 => (1usize..=m).prop_map(Cs::Exact),
            1 => (1usize..=m).prop_map(Cs::Usize),
        ]
        .boxed(),
    }
}

fn redop_strategy() -> BoxedStrategy<RedOp> {
    prop_oneof![
        3 => Just(RedOp::Add),
        2 => Just(RedOp::Xor),
        1 => Just(RedOp::Min),
        1 => Just(RedOp::Max)
    ]
    .boxed()
}

fn term_strategy(classes: &[TermClass]) -> BoxedStrategy<Term> {
    let mut alts: Vec<BoxedStrategy<Term>> = vec![];
    for c in classes {
        alts.push(match c {
            TermClass::Collect => prop_oneof![
                3 => Just(Term::CollectVec),
                2 => Just(Term::Collect),
                2 => (
                    prop_oneof![
                        Just(Target::Vec),
                        Just(Target::SplitDoubling),
                        Just(Target::SplitLinear),
                        Just(Target::Fixed)
                    ],
                    0u16..40
                )
                    .prop_map(|(target, spare)| Term::CollectInto {
                        target,
                        prefix: vec![],
                        spare
                    }),
            ]
            .boxed(),
            TermClass::CollectIntoPrefixed => (
                prop_oneof![
                    Just(Target::Vec),
                    Just(Target::SplitDoubling),
                    Just(Target::SplitLinear),
                    Just(Target::Fixed)
                ],
                prop_oneof![
                    1 => Just(0usize),
                    2 => Just(1usize),
                    3 => 2usize..12,
                    1 => 12usize..70,
                ]
                .prop_flat_map(|n| vec(0u32..16, n)),
                prop_oneof![Just(0u16), 0u16..8, 8u16..200],
            )
                .prop_map(|(target, prefix, spare)| Term::CollectInto { target, prefix, spare })
                .boxed(),
            TermClass::CollectX => Just(Term::CollectX).boxed(),
            TermClass::Count => Just(Term::Count).boxed(),
            TermClass::ForEach => Just(Term::ForEach).boxed(),
            TermClass::ReduceFamily => prop_oneof![
                4 => redop_strategy().prop_map(|op| Term::Reduce { op }),
                2 => redop_strategy().prop_map(|op| Term::Fold { op }),
                1 => Just(Term::Sum),
                1 => Just(Term::Min),
                1 => Just(Term::Max),
                1 => Just(Term::MinBy),
                1 => Just(Term::MaxBy),
                1 => Just(Term::MinByKey),
                1 => Just(Term::MaxByKey),
            ]
            .boxed(),
            TermClass::ReduceNonComm => prop_oneof![
                Just(Term::Reduce { op: RedOp::NonComm }),
                Just(Term::Fold { op: RedOp::NonComm })
            ]
            .boxed(),
            TermClass::ShortCircuit => prop_oneof![
                4 => mask_strategy().prop_map(|mask| Term::Find { mask }),
                2 => Just(Term::First),
                2 => mask_strategy().prop_map(|mask| Term::Any { mask }),
                2 => mask_strategy().prop_map(|mask| Term::All { mask }),
            ]
            .boxed(),
            TermClass::WithIndex => prop_oneof![
                3 => mask_strategy().prop_map(|mask| Term::FindIdx { mask }),
                1 => Just(Term::FirstIdx),
            ]
            .boxed(),
            TermClass::ParamsOnly => Just(Term::ParamsOnly).boxed(),
        });
    }
    proptest::strategy::Union::new(alts).boxed()
}

fn schedule_strategy(yield_every: Vec<u16>, src_often: bool) -> BoxedStrategy<Schedule> {
    (
        prop_oneof![
            3 => Just(Policy::Uniform),
            4 => Just(Policy::Weighted),
            3 => Just(Policy::Priority)
        ],
        prop_oneof![
            1 => vec(any::<u8>(), 0..16),
            4 => vec(any::<u8>(), 16..200),
            2 => vec(any::<u8>(), 200..600),
        ],
        // slot 0 is the spawner: may be starved (0) or favoured; workers 1..=16
        prop_oneof![
            2 => vec(1u8..=1, 18),
            3 => vec(prop_oneof![4 => 1u8..=3, 1 => 4u8..=20], 18),
            // spawner starved / favoured explicitly
            2 => (prop_oneof![Just(0u8), Just(20u8)], vec(1u8..=4, 17)).prop_map(|(s, mut w)| {
                w.insert(0, s);
                w
            }),
            // late workers favoured: a late-spawned worker gets the early chunks
            2 => vec(1u8..=2, 18).prop_map(|mut w| {
                for (i, x) in w.iter_mut().enumerate() {
                    if i >= 2 {
                        *x = x.saturating_mul(6);
                    }
                }
                w
            }),
        ],
    )
        .prop_flat_map(move |(policy, tape, weights)| {
            (
                proptest::sample::select(yield_every.clone()),
                prop_oneof![6 => Just(0u8), 2 => Just(1u8), 1 => 2u8..=5],
                if src_often {
                    prop_oneof![2 => Just(0u8), 2 => 1u8..=3, 1 => 4u8..=12].boxed()
                } else {
                    prop_oneof![5 => Just(0u8), 1 => 1u8..=3, 1 => 4u8..=12].boxed()
                },
            )
                .prop_map(move |(yield_every, drop_yield, src_yield)| Schedule {
                    policy,
                    tape: tape.clone(),
                    weights: weights.clone(),
                    yield_every,
                    // destructors as yield points only with fine-grained schedules
                    drop_yield: if yield_every == 1 { drop_yield } else { 0 },
                    src_yield: if yield_every == 1 { src_yield } else { 0 },
                })
        })
        .boxed()
}

fn mode_strategy(cfg: ModeCfg, yield_every: Vec<u16>, src_often: bool) -> BoxedStrategy<Mode> {
    match cfg {
        ModeCfg::Free => (
            any::<u32>(),
            prop_oneof![3 => Just(0u32), 3 => 1u32..200, 2 => 200u32..3000],
            prop_oneof![4 => Just(0u32), 1 => 1u32..300],
        )
            .prop_map(|(spin_seed, spin_max, src_spin)| Mode::Free {
                spin_seed,
                spin_max,
                src_spin,
            })
            .boxed(),
        ModeCfg::Sched => schedule_strategy(yield_every, src_often).prop_map(Mode::Sched).boxed(),
    }
}

fn fault_strategy(chain_len: usize) -> BoxedStrategy<Fault> {
    let site = if chain_len == 0 {
        prop_oneof![
            Just(Site::Pred),
            Just(Site::Red),
            Just(Site::Key),
            Just(Site::Cmp),
            Just(Site::ForEach)
        ]
        .boxed()
    } else {
        prop_oneof![
            5 => (0..chain_len as u8).prop_map(Site::Stage),
            // a closure of the terminal (normalise maps it to the one the generated terminal actually calls)
            3 => Just(Site::Pred),
        ]
        .boxed()
    };
    (
        site,
        prop_oneof![
            2 => (0u32..8).prop_map(At::Nth),
            2 => (0u32..400).prop_map(At::Nth),
            4 => any::<u32>().prop_map(At::Arg),
        ],
    )
        .prop_map(|(site, at)| Fault { site, at })
        .boxed()
}

/// Makes a generated case executable by the harness: chain length within the depth instantiated for the source,
/// terminal among those instantiated there, parameter positions inside the chain. A pure function of the case
/// (applied with `prop_map`, so shrinking operates on the raw values).
pub fn normalise(mut c: Case, cfg: &GenCfg) -> Case {
    let with_index = matches!(c.term, Term::FindIdx { .. } | Term::FirstIdx);
    if with_index {
        if !matches!(c.source, Source::VecOwned | Source::Iter { .. } | Source::Endless { .. }) {
            c.source = Source::VecOwned;
        }
        // map the chain onto the nearest shape exposing the with_index terminals
        for s in c.chain.iter_mut() {
            if matches!(s.kind, StageKind::FlatMap | StageKind::FilterMap) {
                s.kind = StageKind::Map;
            }
        }
        while !with_index_shape_ok(&c.chain) {
            // [F, M, ..] and friends: drop the last stage until the shape is one of the seven
            c.chain.pop();
        }
    } else {
        let d = max_depth(c.source).min(cfg.max_chain);
        c.chain.truncate(d);
        if !term_supported(c.source, c.chain.len(), &c.term) {
            // fall back to a source where every terminal exists at every depth <= 2, else shorten the chain
            if c.chain.len() == 3 {
                c.chain.truncate(2);
            }
            if !term_supported(c.source, c.chain.len(), &c.term) {
                c.source = match c.source {
                    s if s.is_iter_backed() => Source::Iter { hint: Hint::Exact },
                    _ => Source::VecOwned,
                };
            }
        }
    }
    if matches!(c.source, Source::ArrayRef) {
        c.input.resize(6, 0);
    }
    // large flat_map expansions: at most one per chain, on short inputs (output size stays bounded)
    let mut big = 0;
    for s in c.chain.iter_mut() {
        if s.kind == StageKind::FlatMap && s.fan > 3 {
            big += 1;
            if big > 1 {
                s.fan = 2;
            }
        }
    }
    if big > 0 && c.input.len() > 48 && !matches!(c.source, Source::ArrayRef) {
        c.input.truncate(48);
    }
    // sizes above 2^20 only where a pull does not allocate `c` slots (stated limit of the domain, see C15)
    if c.source.is_iter_backed() {
        for p in c.params.iter_mut() {
            if let ParamKind::Chunk(Cs::Exact(x) | Cs::Min(x) | Cs::Usize(x)) = &mut p.kind {
                if *x > 1 << 20 {
                    *x = 1 + (*x % 4096);
                }
            }
        }
    }
    let n = c.chain.len() as u8;
    for p in c.params.iter_mut() {
        p.pos = match cfg.pos {
            ParamPos::OnSource => 0,
            ParamPos::Anywhere => p.pos.min(n),
        };
    }
    for f in c.faults.iter_mut() {
        if let Site::Stage(s) = f.site {
            if c.chain.is_empty() {
                f.site = Site::Pred;
            } else {
                f.site = Site::Stage(s % c.chain.len() as u8);
            }
        }
        // a fault in a closure the terminal never calls cannot be raised: move it to one it does call
        let terminal_site = match &c.term {
            Term::Reduce { .. } | Term::Fold { .. } => Some(Site::Red),
            Term::MinBy | Term::MaxBy => Some(Site::Cmp),
            Term::MinByKey | Term::MaxByKey => Some(Site::Key),
            Term::Find { .. } | Term::Any { .. } | Term::All { .. } | Term::FindIdx { .. } => Some(Site::Pred),
            Term::ForEach => Some(Site::ForEach),
            _ => None,
        };
        let is_terminal_site = !matches!(f.site, Site::Stage(_));
        if is_terminal_site && Some(f.site) != terminal_site {
            f.site = match terminal_site {
                Some(s) => s,
                None if !c.chain.is_empty() => Site::Stage(0),
                None => f.site,
            };
        }
    }
    c
}

pub fn case_strategy(cfg: &GenCfg) -> BoxedStrategy<Case> {
    let cfg2 = cfg.clone();
    let max_faults = cfg.max_faults;
    let force_fault = cfg.force_fault;
    let chain = vec(stage_strategy(), cfg.min_chain..=cfg.max_chain);
    let param = (
        0u8..=3,
        prop_oneof![
            threads_strategy(cfg.threads).prop_map(ParamKind::Threads),
            chunk_strategy(cfg.chunk).prop_map(ParamKind::Chunk)
        ],
    )
        .prop_map(|(pos, kind)| ParamOp { pos, kind });
    // always one threads op and one chunk op (so that the configured domain is what runs), plus up to two more anywhere
    let params = (
        (0u8..=3, threads_strategy(cfg.threads)),
        (0u8..=3, chunk_strategy(cfg.chunk)),
        vec(param, 0..=2),
    )
        .prop_map(|((tp, t), (cp, c), mut rest)| {
            let mut v = vec![
                ParamOp {
                    pos: tp,
                    kind: ParamKind::Threads(t),
                },
                ParamOp {
                    pos: cp,
                    kind: ParamKind::Chunk(c),
                },
            ];
            v.append(&mut rest);
            v
        });
    (
        source_strategy(cfg.src),
        input_strategy(cfg.max_len, cfg.long_inputs),
        chain,
        params,
        term_strategy(&cfg.terms),
        mode_strategy(cfg.mode, cfg.yield_every.clone(), cfg.src_yield_often),
    )
        .prop_flat_map(move |(source, input, chain, params, term, mode)| {
            let n = chain.len();
            let lo = if force_fault { 1 } else { 0 };
            let faults = if max_faults == 0 {
                Just(vec![]).boxed()
            } else {
                vec(fault_strategy(n), lo..=max_faults).boxed()
            };
            faults.prop_map(move |faults| Case {
                source,
                input: input.clone(),
                chain: chain.clone(),
                params: params.clone(),
                term: term.clone(),
                mode: mode.clone(),
                faults,
            })
        })
        .prop_map(move |c| normalise(c, &cfg2))
        .boxed()
}

/// all chains of length 0..=max over the four transformations, with the given closure parameters
pub fn all_shapes(max: usize) -> Vec<Vec<StageKind>> {
    let kinds = [StageKind::Map, StageKind::Filter, StageKind::FlatMap, StageKind::FilterMap];
    let mut out: Vec<Vec<StageKind>> = vec![vec![]];
    let mut frontier: Vec<Vec<StageKind>> = vec![vec![]];
    for _ in 0..max {
        let mut next = vec![];
        for f in &frontier {
            for k in kinds {
                let mut g = f.clone();
                g.push(k);
                next.push(g);
            }
        }
        out.extend(next.iter().cloned());
        frontier = next;
    }
    out
}

/// deterministic closure parameters for enumerated chains
pub fn stage_of(kind: StageKind, i: usize, variant: u32) -> Stage {
    Stage {
        kind,
        k: (i as u32 * 7 + variant * 3 + 1) % 64,
        mask: [0x5bd6u16, 0xa5f3, 0x3c7e, 0xffff, 0x0ff0][(i + variant as usize) % 5],
        fan: [2u8, 3, 1, 2][(i + variant as usize) % 4],
    }
}
