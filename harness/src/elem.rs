//! Element type with drop accounting, plain value view `V`, and the pure functions every generated
//! closure is built from. Nothing here depends on orx-parallel.

use std::sync::atomic::{AtomicU32, AtomicU64, AtomicU8, Ordering};
use std::sync::OnceLock;

/// Size of the value alphabet all closures work modulo.
pub const ALPHA: u32 = 16;

#[inline]
pub fn mix(a: u64, b: u64) -> u64 {
    // splitmix64 finaliser over a combined word
    let mut z = a
        .wrapping_mul(0x9E37_79B9_7F4A_7C15)
        .wrapping_add(b.wrapping_mul(0xC2B2_AE3D_27D4_EB4F))
        .wrapping_add(0x1656_67B1_9E37_79F9);
    z = (z ^ (z >> 30)).wrapping_mul(0xBF58_476D_1CE4_E5B9);
    z = (z ^ (z >> 27)).wrapping_mul(0x94D0_49BB_1331_11EB);
    z ^ (z >> 31)
}

/// uid of the source element at position `pos` (sources of `E`).
#[inline]
pub fn root_uid(pos: usize) -> u64 {
    mix(0xA11C_E000, pos as u64) | 1
}
/// uid of a pre-existing element of a collect_into target.
#[inline]
pub fn prefix_uid(pos: usize) -> u64 {
    mix(0xBEEF_0000, pos as u64) | 1
}
/// A collect_into terminal may be a two-step history on one target: `spare % 3 == 1` adds a second, map-only parallel
/// collect of `1 + spare % 7` fresh elements into the collection the first step returned (`spare % 6 == 4`: that small
/// collect comes first and the generated computation collects into what it returned). Returns (count, extras first?).
pub fn second_step(spare: u16) -> (usize, bool) {
    if spare % 3 == 1 {
        (1 + (spare as usize % 7), spare % 6 == 4)
    } else {
        (0, false)
    }
}

/// uid of the `j`-th value produced by stage `stage` from the element `parent`.
#[inline]
pub fn derive(parent: u64, stage: u32, j: u32) -> u64 {
    mix(parent, ((stage as u64) << 32) | j as u64)
}

/// Plain value view of an element: logical identity + value.
#[derive(Clone, Copy, PartialEq, Eq, Hash, Debug, serde::Serialize, serde::Deserialize)]
pub struct V {
    pub uid: u64,
    pub val: u32,
}
impl V {
    #[inline]
    pub fn key(&self) -> (u32, u64) {
        (self.val, self.uid)
    }
}
impl PartialOrd for V {
    fn partial_cmp(&self, o: &Self) -> Option<std::cmp::Ordering> {
        Some(self.cmp(o))
    }
}
impl Ord for V {
    fn cmp(&self, o: &Self) -> std::cmp::Ordering {
        self.key().cmp(&o.key())
    }
}

// ------------------------------------------------------------------------------------------------
// pure stage semantics (shared by the implementation closures and by the reference model)

#[inline]
pub fn map_v(v: V, stage: u32, k: u32) -> V {
    V {
        uid: derive(v.uid, stage, 0),
        val: (mix(v.val as u64, k as u64) % ALPHA as u64) as u32,
    }
}
#[inline]
pub fn mask_hit(val: u32, mask: u16) -> bool {
    (mask >> (val % ALPHA)) & 1 == 1
}
#[inline]
pub fn flat_n(v: V, k: u32, fan: u8) -> u32 {
    (mix(v.val as u64, 0x5151 ^ k as u64) % (fan as u64 + 1)) as u32
}
#[inline]
pub fn flat_v(v: V, stage: u32, k: u32, j: u32) -> V {
    V {
        uid: derive(v.uid, stage, j),
        val: (mix(v.val as u64, (k as u64) ^ ((j as u64 + 1) << 20)) % ALPHA as u64) as u32,
    }
}

/// Reduce operators.
#[derive(Clone, Copy, PartialEq, Eq, Debug, serde::Serialize, serde::Deserialize)]
pub enum RedOp {
    /// (sum of uids, sum of vals), wrapping: commutative and associative multiset fingerprint.
    Add,
    /// (xor of uids, xor of vals)
    Xor,
    /// minimum by (val, uid) - returns one of its arguments
    Min,
    /// maximum by (val, uid)
    Max,
    /// a*31+b on both components, wrapping: neither commutative nor associative (sequential mode only)
    NonComm,
}
impl RedOp {
    pub fn is_arith(self) -> bool {
        matches!(self, RedOp::Add | RedOp::Xor | RedOp::NonComm)
    }
}
#[inline]
pub fn combine_v(op: RedOp, a: V, b: V) -> V {
    match op {
        RedOp::Add => V {
            uid: a.uid.wrapping_add(b.uid),
            val: a.val.wrapping_add(b.val),
        },
        RedOp::Xor => V {
            uid: a.uid ^ b.uid,
            val: a.val ^ b.val,
        },
        RedOp::Min => {
            if b < a {
                b
            } else {
                a
            }
        }
        RedOp::Max => {
            if b > a {
                b
            } else {
                a
            }
        }
        RedOp::NonComm => V {
            uid: a.uid.wrapping_mul(31).wrapping_add(b.uid),
            val: a.val.wrapping_mul(31).wrapping_add(b.val),
        },
    }
}
/// key with many ties used by the by-key / by-compare terminals
#[inline]
pub fn tie_key(v: V) -> u32 {
    v.val % 3
}

// ------------------------------------------------------------------------------------------------
// drop accounting

pub const TABLE_CAP: usize = 1 << 23;
const LIVE: u8 = 1;
const DROPPED: u8 = 2;
const CANARY: u32 = 0xC0FF_EE11;

static TABLE: OnceLock<Box<[AtomicU8]>> = OnceLock::new();
static NEXT_INST: AtomicU32 = AtomicU32::new(0);
static DOUBLE_DROPS: AtomicU64 = AtomicU64::new(0);
static BAD_CANARY: AtomicU64 = AtomicU64::new(0);
static TABLE_OVERFLOW: AtomicU64 = AtomicU64::new(0);
/// free-mode perturbation of `Drop` (0 = off): a user type's destructor is user code too, and the library may run it
/// inside its own critical sections
static DROP_PERTURB: AtomicU32 = AtomicU32::new(0);

pub fn set_drop_perturbation(seed: u32) {
    DROP_PERTURB.store(seed, Ordering::SeqCst);
}

fn table() -> &'static [AtomicU8] {
    TABLE.get_or_init(|| {
        let mut v = Vec::with_capacity(TABLE_CAP);
        v.resize_with(TABLE_CAP, || AtomicU8::new(0));
        v.into_boxed_slice()
    })
}

/// Snapshot of the drop table.
#[derive(Clone, Copy, Debug, Default, PartialEq, Eq, serde::Serialize)]
pub struct DropStats {
    pub created: u64,
    pub live: u64,
    pub double: u64,
    pub bad_canary: u64,
    pub overflow: u64,
}

/// Resets the drop table for a new case.
pub fn reset_drops() {
    let t = table();
    let n = (NEXT_INST.load(Ordering::SeqCst) as usize).min(TABLE_CAP);
    for s in &t[..n] {
        s.store(0, Ordering::Relaxed);
    }
    NEXT_INST.store(0, Ordering::SeqCst);
    DOUBLE_DROPS.store(0, Ordering::SeqCst);
    BAD_CANARY.store(0, Ordering::SeqCst);
    TABLE_OVERFLOW.store(0, Ordering::SeqCst);
}

pub fn drop_stats() -> DropStats {
    let t = table();
    let n = (NEXT_INST.load(Ordering::SeqCst) as usize).min(TABLE_CAP);
    let live = t[..n]
        .iter()
        .filter(|s| s.load(Ordering::Relaxed) == LIVE)
        .count() as u64;
    DropStats {
        created: n as u64,
        live,
        double: DOUBLE_DROPS.load(Ordering::SeqCst),
        bad_canary: BAD_CANARY.load(Ordering::SeqCst),
        overflow: TABLE_OVERFLOW.load(Ordering::SeqCst),
    }
}

/// Drop-observing element. Owns no heap memory (unless built with feature `vboxed`, used by the fuzz targets so that
/// a double drop is also an AddressSanitizer report), so even a genuine double drop is recorded, not fatal.
pub struct E {
    uid: u64,
    val: u32,
    inst: u32,
    canary: u32,
    #[cfg(feature = "vboxed")]
    _heap: Box<u64>,
}

impl E {
    #[inline]
    pub fn new(v: V) -> Self {
        let inst = NEXT_INST.fetch_add(1, Ordering::Relaxed);
        if (inst as usize) < TABLE_CAP {
            table()[inst as usize].store(LIVE, Ordering::Relaxed);
        } else {
            TABLE_OVERFLOW.fetch_add(1, Ordering::Relaxed);
        }
        E {
            uid: v.uid,
            val: v.val,
            inst,
            canary: CANARY,
            #[cfg(feature = "vboxed")]
            _heap: Box::new(v.uid),
        }
    }
    #[inline]
    pub fn v(&self) -> V {
        V {
            uid: self.uid,
            val: self.val,
        }
    }
}

impl Drop for E {
    fn drop(&mut self) {
        let canary = unsafe { std::ptr::read_volatile(&self.canary) };
        if canary != CANARY {
            BAD_CANARY.fetch_add(1, Ordering::SeqCst);
            #[cfg(feature = "vboxed")]
            {
                // make sure the sanitizer sees the drop of garbage as well
            }
            return;
        }
        let inst = self.inst as usize;
        if inst < TABLE_CAP {
            let prev = table()[inst].swap(DROPPED, Ordering::SeqCst);
            if prev != LIVE {
                DOUBLE_DROPS.fetch_add(1, Ordering::SeqCst);
            }
        }
        unsafe { std::ptr::write_volatile(&mut self.canary, 0xDEAD_0000) };
        crate::sched::drop_yield_point();
        let seed = DROP_PERTURB.load(Ordering::Relaxed);
        if seed != 0 {
            let r = mix(seed as u64 ^ 0xD409, self.uid);
            match r % 149 {
                0 => std::thread::sleep(std::time::Duration::from_micros(30 + (r >> 24) % 250)),
                1..=3 => std::thread::yield_now(),
                _ => {}
            }
        }
    }
}

impl Clone for E {
    fn clone(&self) -> Self {
        E::new(self.v())
    }
}
impl std::fmt::Debug for E {
    fn fmt(&self, f: &mut std::fmt::Formatter<'_>) -> std::fmt::Result {
        write!(f, "E({:x},{})", self.uid, self.val)
    }
}
impl PartialEq for E {
    fn eq(&self, o: &Self) -> bool {
        self.v() == o.v()
    }
}
impl Eq for E {}
impl PartialOrd for E {
    fn partial_cmp(&self, o: &Self) -> Option<std::cmp::Ordering> {
        Some(self.cmp(o))
    }
}
impl Ord for E {
    fn cmp(&self, o: &Self) -> std::cmp::Ordering {
        self.v().cmp(&o.v())
    }
}
impl std::hash::Hash for E {
    fn hash<H: std::hash::Hasher>(&self, state: &mut H) {
        self.v().hash(state)
    }
}
impl Default for E {
    fn default() -> Self {
        E::new(V { uid: 0, val: 0 })
    }
}
impl std::ops::Add for E {
    type Output = E;
    fn add(self, o: E) -> E {
        E::new(combine_v(RedOp::Add, self.v(), o.v()))
    }
}
