//! Reference model: the same chain built from `std::iter` adaptors over the same input.
//! Shares no code with orx-parallel; shares only the pure stage functions of `elem` with the implementation closures.

use crate::case::*;
use crate::elem::*;
use std::cell::RefCell;

/// One closure call of the model (same vocabulary as `obs::Ev`, without thread ids).
#[derive(Clone, Copy, Debug, PartialEq, Eq, PartialOrd, Ord, Hash)]
pub struct MEv {
    /// true: predicate of the terminal; false: stage closure
    pub pred: bool,
    pub stage: u8,
    pub uid: u64,
    /// outputs produced (stage) / result (pred)
    pub extra: u32,
}

/// Model item: value + position in the original source of the element it derives from.
pub type MI = (V, usize);

/// The 8 computation types of the library, as a state machine over transformations (used for labels and signatures).
#[derive(Clone, Copy, Debug, PartialEq, Eq, Hash, PartialOrd, Ord, serde::Serialize, serde::Deserialize)]
pub enum Shape {
    Empty,
    Map,
    Fil,
    MapFil,
    FMap,
    FMapFil,
    Flat,
    FlatFil,
}
/// (next shape, whether the library materialises the upstream stage at this transformation on the pinned tree)
pub fn shape_step(s: Shape, k: StageKind) -> (Shape, bool) {
    use Shape::*;
    use StageKind as K;
    match (s, k) {
        (Empty, K::Map) => (Map, false),
        (Empty, K::Filter) => (Fil, false),
        (Empty, K::FlatMap) => (Flat, false),
        (Empty, K::FilterMap) => (FMap, false),
        (Map, K::Map) => (Map, false),
        (Map, K::Filter) => (MapFil, false),
        (Map, K::FlatMap) => (Flat, false),
        (Map, K::FilterMap) => (FMap, false),
        (Fil, K::Map) => (FMap, false),
        (Fil, K::Filter) => (Fil, false),
        (Fil, K::FlatMap) => (Flat, true),
        (Fil, K::FilterMap) => (FMap, false),
        (MapFil, K::Map) => (FMap, false),
        (MapFil, K::Filter) => (MapFil, false),
        (MapFil, K::FlatMap) => (Flat, true),
        (MapFil, K::FilterMap) => (FMap, false),
        (FMap, K::Map) => (FMap, false),
        (FMap, K::Filter) => (FMapFil, false),
        (FMap, K::FlatMap) => (Flat, true),
        (FMap, K::FilterMap) => (FMap, false),
        (FMapFil, K::Map) => (FMap, false),
        (FMapFil, K::Filter) => (FMapFil, false),
        (FMapFil, K::FlatMap) => (Flat, true),
        (FMapFil, K::FilterMap) => (FMap, false),
        (Flat, K::Map) => (Flat, false),
        (Flat, K::Filter) => (FlatFil, false),
        (Flat, K::FlatMap) => (Flat, false),
        (Flat, K::FilterMap) => (FMap, true),
        (FlatFil, K::Map) => (Map, true),
        (FlatFil, K::Filter) => (FlatFil, false),
        (FlatFil, K::FlatMap) => (Flat, true),
        (FlatFil, K::FilterMap) => (FMap, true),
    }
}
/// shapes before each stage, final shape, and the indices of stages at which the pinned tree materialises
pub fn shapes(chain: &[Stage]) -> (Vec<Shape>, Shape, Vec<usize>) {
    let mut s = Shape::Empty;
    let mut before = vec![];
    let mut eager = vec![];
    for (i, st) in chain.iter().enumerate() {
        before.push(s);
        let (n, e) = shape_step(s, st.kind);
        if e {
            eager.push(i);
        }
        s = n;
    }
    (before, s, eager)
}

/// Source elements in source order. For `Endless` this is one period.
pub fn source_values(case: &Case) -> Vec<V> {
    match case.source {
        Source::Range { start } | Source::RangeIter { start } | Source::NestedCopied { start } => (0..case.input.len())
            .map(|i| {
                let x = start as usize + i;
                V {
                    uid: x as u64,
                    val: x as u32,
                }
            })
            .collect(),
        Source::SliceRef { skip } => {
            let skip = (skip as usize).min(case.input.len());
            case.input
                .iter()
                .enumerate()
                .skip(skip)
                .map(|(i, &val)| V { uid: root_uid(i), val })
                .collect()
        }
        Source::ArrayRef => (0..6)
            .map(|i| V {
                uid: root_uid(i),
                val: case.input.get(i).copied().unwrap_or(0),
            })
            .collect(),
        _ => case
            .input
            .iter()
            .enumerate()
            .map(|(i, &val)| V { uid: root_uid(i), val })
            .collect(),
    }
}

/// group sizes of the nested sources: a fixed cycle with empty and multi-element groups
pub fn nested_group_sizes(total: usize) -> Vec<usize> {
    let cycle = [3usize, 0, 1, 2, 0, 0, 4, 1];
    let mut out = vec![];
    let mut left = total;
    let mut i = 0;
    while left > 0 {
        let g = cycle[i % cycle.len()].min(left);
        out.push(g);
        left -= g;
        i += 1;
    }
    // trailing empty groups as well
    out.push(0);
    out
}

/// Builds the std chain. `log` receives every stage closure call.
pub fn build<'a>(
    src: Box<dyn Iterator<Item = MI> + 'a>,
    chain: &'a [Stage],
    log: &'a RefCell<Vec<MEv>>,
) -> Box<dyn Iterator<Item = MI> + 'a> {
    let mut it = src;
    for (i, st) in chain.iter().enumerate() {
        let st = *st;
        let si = i as u32;
        let push = move |uid: u64, extra: u32| {
            log.borrow_mut().push(MEv {
                pred: false,
                stage: si as u8,
                uid,
                extra,
            })
        };
        it = match st.kind {
            StageKind::Map => Box::new(it.map(move |(v, o)| {
                push(v.uid, 1);
                (map_v(v, si, st.k), o)
            })),
            StageKind::Filter => Box::new(it.filter(move |(v, _)| {
                let keep = mask_hit(v.val, st.mask);
                push(v.uid, keep as u32);
                keep
            })),
            StageKind::FlatMap => Box::new(it.flat_map(move |(v, o)| {
                let n = flat_n(v, st.k, st.fan);
                push(v.uid, n);
                (0..n).map(|j| (flat_v(v, si, st.k, j), o)).collect::<Vec<_>>()
            })),
            StageKind::FilterMap => Box::new(it.filter_map(move |(v, o)| {
                let keep = mask_hit(v.val, st.mask);
                push(v.uid, keep as u32);
                keep.then(|| (map_v(v, si, st.k), o))
            })),
        };
    }
    it
}

#[derive(Clone, Debug)]
pub struct Model {
    pub src: Vec<V>,
    /// complete output of the chain, with origins
    pub out: Vec<MI>,
    /// every stage closure call of a complete sequential evaluation, in sequential order
    pub full_log: Vec<MEv>,
}

pub fn full(case: &Case) -> Model {
    full_with_src(case, source_values(case))
}

/// same with an explicit source order (std collections iterate in their own order)
pub fn full_with_src(case: &Case, src: Vec<V>) -> Model {
    let log = RefCell::new(Vec::new());
    let out: Vec<MI> = {
        let it = build(Box::new(src.iter().copied().enumerate().map(|(i, v)| (v, i))), &case.chain, &log);
        it.collect()
    };
    Model {
        src,
        out,
        full_log: log.into_inner(),
    }
}

impl Model {
    pub fn out_v(&self) -> Vec<V> {
        self.out.iter().map(|x| x.0).collect()
    }
    /// arguments stage `s` sees, in sequential order
    pub fn stage_args(&self, s: u8) -> Vec<u64> {
        self.full_log.iter().filter(|e| e.stage == s).map(|e| e.uid).collect()
    }
}

/// Result of the lazy std evaluation of a short-circuit terminal: first match (value, origin, position in the
/// output sequence) and the log of every closure call std made (stages and predicate).
pub struct Lazy {
    pub found: Option<(V, usize)>,
    pub log: Vec<MEv>,
}

/// `pred_mask = None` means "first": every element matches.
/// For `Endless` sources one period is searched (values are periodic and closures depend on values only).
pub fn lazy_find(case: &Case, src: Vec<V>, pred_mask: Option<u16>, negate: bool) -> Lazy {
    let log = RefCell::new(Vec::new());
    let found = {
        let mut it = build(Box::new(src.iter().copied().enumerate().map(|(i, v)| (v, i))), &case.chain, &log);
        match pred_mask {
            None => it.next(),
            Some(mask) => it.find(|(v, _)| {
                // `extra` is the user predicate's own result; `all` searches for its negation
                let raw = mask_hit(v.val, mask);
                log.borrow_mut().push(MEv {
                    pred: true,
                    stage: 0,
                    uid: v.uid,
                    extra: raw as u32,
                });
                raw != negate
            }),
        }
    };
    Lazy {
        found,
        log: log.into_inner(),
    }
}

/// Normalised terminal: what is actually run for the item type at the end of the chain
/// (items that are references or pairs support no arithmetic; such terminals are replaced deterministically).
pub fn effective_term(case: &Case) -> Term {
    let only_filters = case.chain.iter().all(|s| s.kind == StageKind::Filter);
    let non_arith = only_filters && (case.source.yields_ref() || case.source.yields_pair());
    let mut t = case.term.clone();
    if non_arith {
        t = match t {
            Term::Reduce { op } if op.is_arith() => Term::Reduce { op: RedOp::Min },
            Term::Fold { .. } => Term::Reduce { op: RedOp::Max },
            Term::Sum => Term::Min,
            Term::CollectInto { target, .. } => Term::CollectInto {
                target,
                prefix: vec![],
                spare: 0,
            },
            t => t,
        };
    }
    // NonComm is only meaningful sequentially; in parallel runs it is replaced by Add
    if !case.is_sequential() {
        t = match t {
            Term::Reduce { op: RedOp::NonComm } => Term::Reduce { op: RedOp::Add },
            Term::Fold { op: RedOp::NonComm } => Term::Fold { op: RedOp::Add },
            t => t,
        };
    }
    t
}

/// identity element used by `fold`
pub fn fold_identity(op: RedOp) -> V {
    match op {
        RedOp::Add | RedOp::Xor | RedOp::NonComm => V { uid: 0, val: 0 },
        RedOp::Min => V {
            uid: u64::MAX,
            val: u32::MAX,
        },
        RedOp::Max => V { uid: 0, val: 0 },
    }
}
